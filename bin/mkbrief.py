#!/usr/bin/env python3
"""mkbrief.py <Cxx> <seed id> [extra sentence]: create a scratch worktree /tmp/seed/<seed id> of /repo and the brief for a seeding sub-agent
(only the property text and the worktree path go into the brief)"""
import sys, json, subprocess, os
pid, sid = sys.argv[1], sys.argv[2]
extra = ' '.join(sys.argv[3:])
wt = f'/tmp/seed/{sid}'
os.makedirs('/tmp/seed', exist_ok=True)
if not os.path.exists(wt):
    subprocess.check_call(['git', '-C', '/repo', 'worktree', 'add', '--detach', wt, 'HEAD'], stdout=subprocess.DEVNULL, stderr=subprocess.DEVNULL)
p = [json.loads(l) for l in open('/verif/properties.jsonl')]
d = [x for x in p if x['id'] == pid][0]
prop = f"{d['title']}\n\nStatement: {d['statement']}\n\nHolds: {d['quantifier']['text']}"
tpl = open('/verif/bin/seed_brief.txt').read()
out = tpl.replace('__WT__', wt).replace('__PROP__', prop)
if extra:
    out += '\nAdditional constraint: ' + extra + '\n'
open(f'/tmp/seed/brief_{sid}.txt', 'w').write(out)
print(wt, f'/tmp/seed/brief_{sid}.txt')
