#!/usr/bin/env python3
"""Regression over the kept seeded changes: every seeded/<id>/patch.diff is applied to a scratch copy of the headers
(VERIF_REPO) and the quick checks named in its meta.json must exit 1; benign-* patches must leave every listed check at 0.
Writes evidence/seed_regression.json.  (Not a registered check.)"""
import json, os, subprocess, shutil, sys, time, glob
VERIF = os.path.dirname(os.path.dirname(os.path.abspath(__file__)))
only = sys.argv[1:]
out = []
for d in sorted(glob.glob(os.path.join(VERIF, 'seeded', '*'))):
    name = os.path.basename(d)
    if only and not any(name.startswith(o) for o in only):
        continue
    meta = json.load(open(os.path.join(d, 'meta.json')))
    benign = name.startswith('benign')
    checks = ['C%02d' % i for i in range(1, 21)] if benign else meta['caught_by_quick_checks']
    scratch = '/tmp/seedall_repo'
    shutil.rmtree(scratch, ignore_errors=True); os.makedirs(scratch)
    subprocess.run(['rsync', '-a', '/repo/include', scratch + '/'], check=True)
    r = subprocess.run(['patch', '-p1', '-s', '-d', scratch, '-i', os.path.join(d, 'patch.diff')], capture_output=True, text=True)
    if r.returncode != 0:
        out.append({'seed': name, 'error': 'patch does not apply: ' + r.stdout[-300:]}); print(name, 'PATCH FAILS', flush=True); continue
    env = dict(os.environ, VERIF_REPO=scratch)
    res = {}
    for c in checks:
        rr = subprocess.run([os.path.join(VERIF, 'bin', 'check'), c], capture_output=True, text=True, env=env)
        res[c] = rr.returncode
    ok = all(v == 0 for v in res.values()) if benign else all(v == 1 for v in res.values())
    out.append({'seed': name, 'expected': 'quiet' if benign else 'caught', 'checks': res, 'ok': ok})
    print(name, res, 'OK' if ok else 'UNEXPECTED', flush=True)
    subprocess.run(['python3', os.path.join(VERIF, 'bin', 'vbuild.py'), '--drop'], env=env)
    shutil.rmtree(scratch, ignore_errors=True)
path = os.path.join(VERIF, 'evidence', 'seed_regression.json')
if only and os.path.exists(path):   # a partial run replaces only the entries it re-ran
    names = {o['seed'] for o in out}
    out = sorted([o for o in json.load(open(path)) if o['seed'] not in names] + out, key=lambda o: o['seed'])
json.dump(out, open(path, 'w'), indent=1)
print('all as expected:', all(o.get('ok') for o in out))
