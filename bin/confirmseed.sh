#!/bin/bash
# confirmseed.sh <worktree> [std] [libs...]: confirm a seeded change in its scratch worktree: the patch is what the worktree contains,
# the demo fails against the changed headers and passes against /repo's headers, the repository suite passes with the change.
wt=$1; std=${2:-c++17}; shift; shift
cd "$wt" || exit 2
git diff --stat -- include | tail -1
diff <(git diff -- include) out/patch.diff >/dev/null && echo "patch.diff = worktree diff" || echo "NOTE: patch.diff differs from the worktree diff"
g++ -std=$std -w -I"$wt/include" out/demo.cpp -o /tmp/demo_changed "$@" && /tmp/demo_changed >/tmp/demo_changed.out 2>&1; echo "demo with change: exit $? ($(tail -1 /tmp/demo_changed.out | cut -c1-160))"
g++ -std=$std -w -I/repo/include out/demo.cpp -o /tmp/demo_orig "$@" && /tmp/demo_orig >/tmp/demo_orig.out 2>&1; echo "demo without change: exit $? ($(tail -1 /tmp/demo_orig.out | cut -c1-160))"
rm -f /tmp/demo_changed /tmp/demo_orig /tmp/demo_changed.out /tmp/demo_orig.out
cmake --build "$wt/_build" --target tests -j 6 2>&1 | tail -1
ctest --test-dir "$wt/_build" --timeout 900 -j4 2>&1 | grep "tests passed\|Failed\|\*\*\*"
