#!/usr/bin/env python3
"""mkrefbrief.py <id> <area text...>: worktree + brief for a behaviour-preserving refactoring (quietness test)"""
import sys, json, subprocess, os
sid = sys.argv[1]; area = ' '.join(sys.argv[2:])
wt = f'/tmp/seed/{sid}'
os.makedirs('/tmp/seed', exist_ok=True)
if not os.path.exists(wt):
    subprocess.check_call(['git', '-C', '/repo', 'worktree', 'add', '--detach', wt, 'HEAD'], stdout=subprocess.DEVNULL, stderr=subprocess.DEVNULL)
props = '\n'.join(f"- {d['title']}: {d['statement']}" for d in (json.loads(l) for l in open('/verif/properties.jsonl')))
out = open('/verif/bin/refactor_brief.txt').read().replace('__WT__', wt).replace('__PROPS__', props).replace('__AREA__', area)
open(f'/tmp/seed/brief_{sid}.txt', 'w').write(out)
print(wt)
