#!/usr/bin/env python3
"""regenerate MANIFEST.json from gen/props.py (claimed checks) and properties.jsonl (the rest is not_applicable)"""
import json, os, sys
VERIF = os.path.dirname(os.path.dirname(os.path.abspath(__file__)))
sys.path.insert(0, os.path.join(VERIF, 'gen'))
import props as propsmod

LEVEL_TEXT = {
 'C01': 'Every reachable active configuration of the zoo machines x every event type x every valuation of the consulted guards is executed on the real back-ends (7 configurations) and the ordered guard/action selection and handled/zero status are compared with the reference model; the search closes, so histories of any length over the alphabet are covered.',
 'C02': 'Every edge of the zoo state graphs under every guard valuation is executed on the real back-ends; the exit/action/entry order and the resulting configuration are compared with the reference model wherever the selection agrees.',
 'C03': 'All histories over start/stop/process_event/enqueue_event/execute_queued_events to closure; at every distinct quiescent state the entry/exit ledger is compared with every introspection API the back-end offers and with the documented id numbering.',
 'C06': 'Every reachable configuration x event x guard valuation from quiescent machines: per-region order, result-code contract and no_transition contract compared with the model and with direct predicates from the statement.',
 'C07': 'Nested machines (depth 2-3): bubbling level by level, single consumption, exit/entry cascades and configurations compared with the model on every explored execution.',
 'C08': 'Three history policies x plain / history-event / explicit / fork entry x all per-region positions, explored to closure; restored states and configurations compared with the model.',
 'C04': 'Nested submissions (process_event / enqueue_event on the local Fsm or the root) are injected at every guard/exit/action/entry/exception_caught position of every reachable step, during event processing and during start(); a model-independent monitor checks that no submitted event is dispatched before the submitting call returns, and the full callback sequence and the pending sets are compared with the reference model.',
 'C05': 'Deferring configurations (state property and guarded Defer rows) explored to closure with up to 3-4 pending events, also through interrupt/terminate blockages; the deferral ledger checks no no_transition at deferral, retention, arrival order and payload, the rest is compared with the model.',
 'C10': 'Completion chains, conflicting completion rows and completion inside a submachine explored with queued and deferred events pending; a monitor checks that the completion rows of an entered state are tried before any other event runs.',
 'C11': 'Terminate state and interrupt states (one / two end events) explored to closure with queued and deferred events pending; a model-independent monitor checks that a blocked machine shows no behaviour and no configuration change.',
 'C12': 'Every guard/exit/action/entry position of every reachable step is used as throw point (one faulty operation per history in quick, two in thorough) followed by all continuations to closure; containment, exception_caught contract, policy-prescribed active ids and usability are checked, and the whole exploration is repeated with zero- and pattern-initialised automatic variables and compared record by record.',
 'C13': 'The seven back-end configurations are explored in lock-step as one product system: the same operation and the same environment answers (by label) go to every configuration, and the normalised callback sequences, result status, configurations (by name and by id) and pending events must coincide in every product state reached.',
 'C17': 'Every reachable configuration of machines with flags on simple states, submachine states and substates (and on terminate/interrupt states) is checked for every flag and operator against the active configuration; the answers are part of the state identity, so path dependence cannot hide; inside behaviours the flags are compared with the policy-defined configuration.',
 'C18': 'A machine mixing exact, base-class (2 levels) and Kleene triggers in one state and across a submachine level is explored to closure for every event type, directly, queued and deferred; selection order, the event type seen by each behaviour (any holding the exact type) and payload checksums are compared.',
 'C19': 'The same nested machine is compiled under the four policies; every behaviour position of every taken transition reports the active ids, compared with the policy table of the model; the four builds are additionally explored in lock-step and must be indistinguishable apart from those in-behaviour ids.',
 'C15': 'Every reachable configuration (with queued/deferred events pending) is used as copy point; copy-construction from a const reference, copy-assignment and (backmp11) move-construction/assignment are followed by every interleaving of continuation operations on both machines; each reaction is compared with the original rebuilt by replay, every callback is attributed to a machine object by address, and the untouched machine must stay unchanged.',
 'C16': 'Every reachable configuration with empty queues is saved to a text and a binary archive and loaded into a fresh machine (back, back11); active ids, history, do_serialize data and every continuation are compared with the original rebuilt by replay.',
 'C09': 'Submachine with direct, fork, entry-point and exit-point rows explored to closure, including the exit point event sent from outside in every configuration.',
}
NOTE = 'Trusted: the reference model gen/model.py and oracle gen/oracles.py; the zoo structures (gen/zoo.py) stand for the "programs" quantifier; g++ 12 -O0; private members are only read (-fno-access-control). Bounds: zoo machines, pending queue <= stated bound; residue per DESIGN section 5.'

def main():
    props = [json.loads(l) for l in open(os.path.join(VERIF, 'properties.jsonl'))]
    checks = []
    claimed = set()
    for pid in sorted(propsmod.PROPS):
        spec = propsmod.PROPS[pid]
        if spec.get('unclaimed'):
            continue
        claimed.add(pid)
        checks.append({
            'property_id': pid,
            'quick_cmd': f'bin/check {pid} --tier quick',
            'thorough_cmd': f'bin/check {pid} --tier thorough',
            'evidence_file': f'evidence/{pid}.json',
            'replay_cmd_template': f'bin/check {pid} --replay {{path}}',
            'engine': spec.get('engine', 'explorer'),
            'level_claimed': {'category': spec['level'], 'text': spec.get('level_text') or LEVEL_TEXT.get(pid, spec['rule']), 'design_ref': spec['design_ref']},
            'level_note': spec.get('level_note', NOTE),
            'technique': spec['technique'],
        })
    na_reasons = getattr(propsmod, 'NOT_APPLICABLE', {})
    na = []
    for p in props:
        if p['id'] not in claimed:
            na.append({'property_id': p['id'], 'reason': na_reasons.get(p['id'], 'not claimed yet: its check is still being built and has not run end-to-end on the unchanged tree')})
    m = {
        'version': 1,
        'setup_cmd': 'python3 bin/vbuild.py',
        'hooks': {'guard': 'BOOSTORG_MSM_VERIF', 'enable': 'no source hooks: the harness is compiled against /repo/include with -fno-access-control (read-only access to private members)',
                  'baseline_off_cmd': 'cmake --build /repo/_build --target tests -j 16 && ctest --test-dir /repo/_build -j8 --timeout 900',
                  'source_commits': [], 'add_only': True},
        'engines': [
            {'name': 'lockstep', 'path': 'gen/lockstep.py + harness/explore.hpp (serve mode)', 'serves_properties': ['C13', 'C19'],
             'kind_free_text': 'product-state exploration of several real implementations of one description under identical operations and environment answers'},
            {'name': 'copy-differential', 'path': 'gen/custom.py (run_copy) + harness/explore.hpp (servecopy mode)', 'serves_properties': ['C15', 'C16'],
             'kind_free_text': 'exhaustive enumeration of copy/save points and continuation interleavings on two live machine objects, differential against replay'},
            {'name': 'storage', 'path': 'storage/storage.cpp + gen/custom.py (run_storage)', 'serves_properties': ['C20'],
             'kind_free_text': 'exhaustive depth-k enumeration of storage operation sequences per event type under clang ASan/UBSan/LSan with an object ledger'},
            {'name': 'lockstep+tokenizer', 'path': 'gen/custom.py (run_frontends) + gen/emit_fe.py + puml/tokenizer.cpp + puml/gen_guards.py', 'serves_properties': ['C14'],
             'kind_free_text': 'front-end lock-step exploration, exhaustive grammar enumeration through the real PlantUML tokenizer, compile-time guard tree batch'},
            {'name': 'explorer', 'path': 'harness/explore.hpp + gen/conform.py + gen/model.py', 'serves_properties': sorted(claimed),
             'kind_free_text': 'explicit-state bounded-exhaustive exploration of the real back-ends (BFS over API calls, DFS over environment answers, canonical state hashing) with reference-model conformance of every execution'},
        ],
        'checks': checks,
        'not_applicable': na,
        'notes': 'Repairs of genuine defects found by these checks are the "fix:" commits in /repo; see known_findings.json (fixed entries) and DESIGN.md section 11.5.',
    }
    json.dump(m, open(os.path.join(VERIF, 'MANIFEST.json'), 'w'), indent=1)
    print('claimed', sorted(claimed))
main()
