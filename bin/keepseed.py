#!/usr/bin/env python3
"""keepseed.py <seed dir under /tmp/seed> <property> <name> <caught-by comma list> <needs...>: copy a confirmed seeded change into /verif/seeded/"""
import sys, os, shutil, json
src, prop, name, caught = sys.argv[1:5]
needs = ' '.join(sys.argv[5:])
dst = f'/verif/seeded/{name}'
os.makedirs(dst, exist_ok=True)
shutil.copy(f'{src}/out/patch.diff', dst)
shutil.copy(f'{src}/out/demo.cpp', dst)
if os.path.exists(f'{src}/out/notes.md'):
    shutil.copy(f'{src}/out/notes.md', dst)
meta = {'breaks_property': prop, 'needs_to_manifest': needs, 'caught_by_quick_checks': [c for c in caught.split(',') if c],
        'confirmed': 'demo compiled against the changed headers exits non-zero and against the unchanged headers exits 0; the repository test suite (4 ctest executables) passes with the change (run in the scratch worktree); '
                     'checks run with bin/seedtest.sh (git -C /repo apply; bin/check ...; git -C /repo checkout -- .)'}
json.dump(meta, open(f'{dst}/meta.json', 'w'), indent=1)
print('kept', dst)
