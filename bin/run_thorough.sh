#!/bin/bash
# run the thorough tier of the given checks one after the other; summary lines only
for p in "$@"; do
  s=$(date +%s)
  out=$(bin/check $p --tier thorough 2>&1); rc=$?
  e=$(( $(date +%s) - s ))
  echo "== $p thorough exit=$rc ${e}s: $(echo "$out" | grep -v '^  ' | tail -1 | cut -c1-250)"
  echo "$out" | grep -A1 "^VIOLATION" | head -6 | cut -c1-500
done
