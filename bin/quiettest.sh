#!/bin/bash
# quiettest.sh <patch.diff>: apply a behaviour-preserving change to a scratch copy of the headers and run every quick check: all must exit 0
patch=$1
rm -rf /tmp/quietrepo; mkdir -p /tmp/quietrepo; rsync -a /repo/include /tmp/quietrepo/
(cd /tmp/quietrepo && patch -p1 -s < "$patch") || { echo "patch does not apply"; exit 2; }
export VERIF_REPO=/tmp/quietrepo
bad=0
for i in 01 02 03 04 05 06 07 08 09 10 11 12 13 14 15 16 17 18 19 20; do
  out=$(/verif/bin/check C$i 2>&1); rc=$?
  [ $rc -ne 0 ] && { bad=1; echo "C$i exit=$rc: $(echo "$out" | grep -v '^  \|^KNOWN' | tail -3 | cut -c1-400)"; }
done
python3 /verif/bin/vbuild.py --drop; rm -rf /tmp/quietrepo
[ $bad -eq 0 ] && echo "all 20 quick checks stayed quiet"
