"""Build cache: harness binaries are keyed by a hash over every file of /repo/include/boost/msm, the
harness and generator sources and the compile flags, so any edit in /repo forces a rebuild."""
import hashlib
import os
import subprocess
import sys
import shutil
import glob
from concurrent.futures import ThreadPoolExecutor

VERIF = os.path.dirname(os.path.dirname(os.path.abspath(__file__)))
sys.path.insert(0, os.path.join(VERIF, 'gen'))
REPO = os.environ.get('VERIF_REPO', '/repo')
BUILD = os.path.join(VERIF, 'build')
# evidence of runs against a scratch tree (VERIF_REPO) must not overwrite the evidence of /repo
EVID = os.path.join(VERIF, 'evidence') if REPO == '/repo' else os.path.join(VERIF, 'evidence', 'tmp', 'scratch_' + os.path.basename(REPO.rstrip('/')))
CFGS = {'b': 1, 'bc': 2, 'bq': 3, 'b11': 4, 'm': 5, 'mf': 6, 'mc': 7}

_tree_hash = None


def tree_hash():
    global _tree_hash
    if _tree_hash is not None:
        return _tree_hash
    h = hashlib.sha256()
    roots = [os.path.join(REPO, 'include', 'boost', 'msm'), os.path.join(VERIF, 'harness')]
    for root in roots:
        for d, _, files in sorted(os.walk(root)):
            for f in sorted(files):
                p = os.path.join(d, f)
                h.update(p.encode())
                with open(p, 'rb') as fh:
                    h.update(fh.read())
    for f in ('gen/emit.py', 'gen/emit_fe.py', 'gen/desc.py', 'gen/zoo.py'):
        with open(os.path.join(VERIF, f), 'rb') as fh:
            h.update(fh.read())
    _tree_hash = h.hexdigest()[:16]
    return _tree_hash


_cache_ready = False


def cache_dir():
    """build/<hash>; cache directories that have not been used for 4 hours are pruned (several trees may be checked
    concurrently: /repo and scratch copies given through VERIF_REPO, which drop their own directory when done: --drop)"""
    global _cache_ready
    d = os.path.join(BUILD, tree_hash())
    if _cache_ready:
        return d
    os.makedirs(d, exist_ok=True)
    import time
    try:
        os.utime(d, None)
    except OSError:
        pass
    for o in glob.glob(os.path.join(BUILD, '*')):
        if os.path.isdir(o) and os.path.basename(o) != tree_hash() and len(os.path.basename(o)) == 16:
            try:
                if time.time() - os.path.getmtime(o) > 4 * 3600:
                    shutil.rmtree(o, ignore_errors=True)
            except OSError:
                pass
    _cache_ready = True
    return d


def build_one(zname, cfg, extra_flags=(), tag='', libs=()):
    """returns path of the binary for (zoo, cfg); builds it when missing"""
    import zoo as zoomod
    import emit
    import desc
    z = zoomod.ZOO[zname]
    variant = desc.variant_for(z, cfg)
    d = cache_dir()
    exe = os.path.join(d, f'{zname}_{cfg}{tag}')
    if os.path.exists(exe):
        return exe
    src = os.path.join(d, f'{zname}_{variant}.cpp')
    if not os.path.exists(src):
        import threading
        tmpn = f'{src}.{os.getpid()}.{threading.get_ident()}.tmp'
        with open(tmpn, 'w') as fh:
            fh.write(emit.emit(desc.make_variant(z, variant)))
        os.replace(tmpn, src)
    std = 'c++' + z.cxx
    cmd = ['g++', f'-std={std}', '-O0', '-fno-access-control', '-w', f'-DVF_CFG={CFGS[cfg]}',
           f'-I{REPO}/include', f'-I{VERIF}/harness', *extra_flags, src, '-o', exe + f'.{os.getpid()}.tmp', *libs]
    r = subprocess.run(cmd, capture_output=True, text=True)
    if r.returncode != 0:
        with open(exe + '.log', 'w') as fh:
            fh.write(' '.join(cmd) + '\n' + r.stdout + r.stderr)
        raise RuntimeError(f'build failed for {zname}/{cfg}: see {exe}.log\n' + '\n'.join(
            l for l in r.stderr.split('\n') if 'error' in l)[:3000])
    os.replace(exe + f'.{os.getpid()}.tmp', exe)
    return exe


def build_many(pairs, jobs=16):
    """pairs: list of (zname, cfg[, flags, tag]); returns dict"""
    out = {}
    errs = []

    def one(p):
        try:
            out[(p[0], p[1]) + tuple(p[3:4])] = build_one(*p)
        except Exception as e:  # noqa
            errs.append(str(e))
    with ThreadPoolExecutor(max_workers=jobs) as ex:
        list(ex.map(one, pairs))
    if errs:
        raise RuntimeError('\n'.join(errs))
    return out


def degraded_caps(exes):
    """private members of the library the harness could not find in this tree (renamed / removed): union over the binaries;
    exported to the workers through VERIF_DEGRADED"""
    missing = set()
    for exe in list(exes)[:14]:
        try:
            o = subprocess.run([exe, 'caps'], capture_output=True, text=True, timeout=60).stdout
            missing |= set(o.replace('missing:', '').split())
        except Exception:
            pass
    os.environ['VERIF_DEGRADED'] = ','.join(sorted(missing))
    if missing:
        print(f'NOTE: private members not found in this tree, state description degraded (fewer states told apart, nothing misjudged): {sorted(missing)}')
    return missing


if __name__ == '__main__':
    if sys.argv[1:2] == ['--drop']:      # remove the cache directory of the tree named by VERIF_REPO (scratch copies)
        shutil.rmtree(os.path.join(BUILD, tree_hash()), ignore_errors=True)
        sys.exit(0)
    import zoo as zoomod
    pairs = []
    names = sys.argv[1:] or list(zoomod.ZOO)
    for n in names:
        for c in zoomod.ZOO[n].configs:
            pairs.append((n, c))
    build_many(pairs)
    print('built', len(pairs), 'in', cache_dir())
