#!/usr/bin/env python3
"""For every 'fix:' commit in /repo: reverse-apply it to a scratch copy of /repo/include and run the quick check(s)
that first exposed the defect through VERIF_REPO; the check must exit 1.  Writes evidence/revert_demo.json.
(Not a registered check: a demonstration that the machinery re-finds every defect it led to repairing.)"""
import json, os, subprocess, shutil, sys, time
VERIF = os.path.dirname(os.path.dirname(os.path.abspath(__file__)))
CHECKS = {  # commit subject prefix -> checks expected to fail when the fix is reverted
    'fix: test result bits': ['C01', 'C06', 'C07'],
    'fix: back11 dispatch table keeps': ['C01'],
    'fix: back11 forwards events that occur only': ['C01', 'C07'],
    'fix: shallow history is honoured': ['C08'],
    'fix: backmp11 takes a transition leaving an exit point': ['C09'],
    'fix: start() runs the initial entry behaviours': ['C04'],
    'fix: backmp11 keeps events that the machine': ['C04'],
    'fix: completion transitions of a submachine': ['C10'],
    'fix: a deferred event re-offered while': ['C05'],
    'fix: backmp11 completion transition returns HANDLED_FALSE': ['C12'],
    'fix: an event enqueued on a submachine': ['C13'],
    'fix: puml count_inits': ['C14'],
    'fix: arrival order of deferred events': ['C05'],
    'fix: back11 recognises a queued or deferred end-interrupt': ['C11'],
    'fix: backmp11 single-step event pool': ['C10'],
}
def main():
    log = subprocess.run(['git', '-C', '/repo', 'log', '--format=%h %s'], capture_output=True, text=True).stdout.strip().split('\n')
    out = []
    for line in log:
        h, subj = line.split(' ', 1)
        if not subj.startswith('fix:'):
            continue
        checks = next((v for k, v in CHECKS.items() if subj.startswith(k)), None)
        if not checks:
            out.append({'commit': h, 'subject': subj, 'error': 'no check mapped'})
            continue
        scratch = '/tmp/revertrepo'
        shutil.rmtree(scratch, ignore_errors=True)
        os.makedirs(scratch)
        subprocess.run(['rsync', '-a', '/repo/include', scratch + '/'], check=True)
        diff = subprocess.run(['git', '-C', '/repo', 'show', '--format=', h], capture_output=True, text=True).stdout
        r = subprocess.run(['patch', '-R', '-p1', '-s', '-d', scratch], input=diff, text=True, capture_output=True)
        if r.returncode != 0:
            out.append({'commit': h, 'subject': subj, 'error': 'reverse patch does not apply: ' + r.stdout[-200:]})
            continue
        res = {}
        for c in checks:
            env = dict(os.environ, VERIF_REPO=scratch)
            t0 = time.time()
            rr = subprocess.run([os.path.join(VERIF, 'bin', 'check'), c], capture_output=True, text=True, env=env)
            res[c] = {'exit': rr.returncode, 'summary': [l for l in rr.stdout.split('\n') if l.startswith(c + ' ')][-1:] , 'wall': round(time.time() - t0, 1)}
        out.append({'commit': h, 'subject': subj, 'checks': res, 'detected': all(v['exit'] == 1 for v in res.values())})
        print(h, subj[:60], {c: v['exit'] for c, v in res.items()}, flush=True)
        subprocess.run(['python3', os.path.join(VERIF, 'bin', 'vbuild.py'), '--drop'], env=dict(os.environ, VERIF_REPO=scratch))
        shutil.rmtree(scratch, ignore_errors=True)
    json.dump(out, open(os.path.join(VERIF, 'evidence', 'revert_demo.json'), 'w'), indent=1)
    print('all detected:', all(o.get('detected') for o in out))
main()
