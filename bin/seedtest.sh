#!/bin/bash
# seedtest.sh <patch.diff> <check ids...> : apply a seeded change, run the quick checks, undo the change.
# default: git -C /repo apply ... ; git -C /repo checkout -- .     SCRATCH=1: work on a scratch copy of /repo/include
# (used while a background run is reading /repo) through VERIF_REPO.
patch=$1; shift
if [ -n "$SCRATCH" ]; then
  rm -rf /tmp/seedrepo; mkdir -p /tmp/seedrepo; rsync -a /repo/include /tmp/seedrepo/
  (cd /tmp/seedrepo && patch -p1 -s < "$patch") || { echo "patch does not apply"; exit 2; }
  export VERIF_REPO=/tmp/seedrepo
else
  git -C /repo apply "$patch" || { echo "patch does not apply"; exit 2; }
fi
for c in "$@"; do
  out=$(/verif/bin/check $c 2>&1)
  rc=$?
  echo "== $c exit=$rc: $(echo "$out" | grep -v '^  ' | tail -1 | cut -c1-200)"
  echo "$out" | grep -A1 "^VIOLATION" | head -4 | cut -c1-400
done
if [ -n "$SCRATCH" ]; then python3 /verif/bin/vbuild.py --drop; rm -rf /tmp/seedrepo; else git -C /repo checkout -- .; git -C /repo status --short | grep -v _build; fi
