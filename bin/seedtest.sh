#!/bin/bash
# seedtest.sh <patch.diff> <check ids...> : apply a seeded change to /repo, run the quick checks, undo the change
patch=$1; shift
git -C /repo apply "$patch" || { echo "patch does not apply"; exit 2; }
for c in "$@"; do
  out=$(/verif/bin/check $c 2>&1)
  rc=$?
  echo "== $c exit=$rc: $(echo "$out" | grep -v '^  ' | tail -1 | cut -c1-200)"
  echo "$out" | grep -A1 "^VIOLATION" | head -4 | cut -c1-400
done
git -C /repo checkout -- .
git -C /repo status --short | grep -v _build
