#!/usr/bin/env python3
"""print the 'explored' column of DESIGN.md section 11.2 from the evidence files (tier and numbers as last run)"""
import json, os
V = os.path.dirname(os.path.dirname(os.path.abspath(__file__)))
for i in range(1, 21):
    pid = f'C{i:02d}'
    e = json.load(open(os.path.join(V, 'evidence', pid + '.json'))); c = e['coverage']
    if 'states' in c:
        extra = ''
        if pid == 'C14':
            extra = f"; tokenizer lines/documents/expressions: {c['evaluations'] - c['transitions']}"
        print(f"| {pid} | {e['tier']} | {c['states']} states / {c['transitions']} executions, {c.get('traces_validated_against_impl', 0)} traces compared, exhaustive={c['exhaustive']}{extra} | violations={e['violations']} |")
    else:
        print(f"| {pid} | {e['tier']} | {c['evaluations']} operation sequences, {c.get('verified_dispatches', 0)} dispatches verified, exhaustive={c['exhaustive']} | violations={e['violations']} |")
