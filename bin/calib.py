#!/usr/bin/env python3
"""calibration helper: full-trace comparison model vs implementation (not a registered check)"""
import sys, os, collections
VERIF = os.path.dirname(os.path.dirname(os.path.abspath(__file__)))
sys.path.insert(0, os.path.join(VERIF, 'gen')); sys.path.insert(0, os.path.join(VERIF, 'bin'))
import vbuild, conform, zoo as zoomod, desc, oracles

def main():
    import argparse
    ap = argparse.ArgumentParser()
    ap.add_argument('zoo'); ap.add_argument('cfg')
    ap.add_argument('--ops', default=None); ap.add_argument('--faults', type=int, default=0); ap.add_argument('--submits', type=int, default=0)
    ap.add_argument('--qbound', type=int, default=2); ap.add_argument('--depth', type=int, default=60); ap.add_argument('--show', type=int, default=5)
    ap.add_argument('--act', action='store_true'); ap.add_argument('--guards', type=int, default=-1); ap.add_argument('--fault-ops', type=int, default=-1); ap.add_argument('--max-exec', type=int, default=300000); ap.add_argument('--nt', action='store_true')
    a = ap.parse_args()
    z = zoomod.ZOO[a.zoo]
    exe = vbuild.build_one(a.zoo, a.cfg)
    ops = a.ops.split(',') if a.ops else ['start', 'stop'] + [f'pe:{i+1}' for i in range(len(z.events))]
    out = os.path.join(VERIF, 'build', 'tmp', f'calib_{a.zoo}_{a.cfg}.txt')
    conform.run_explorer(exe, ops, depth=a.depth, faults=a.faults, submits=a.submits, qbound=a.qbound, outfile=out, max_exec=a.max_exec, guards=a.guards, fault_ops=a.fault_ops, submit_in_nt=a.nt)
    c = conform.Conformer(z, a.cfg, faults=a.faults > 0, n_menu=len(z.menu) if a.submits else 0, submit_in_nt=a.nt)
    stats = collections.Counter(); shown = [0]
    def on_exec(x):
        if x.mtrace is None:
            stats['nomodel'] += 1; return
        it = [oracles.norm_tok(t, a.cfg, a.act) for t in x.trace]; mt = [oracles.norm_tok(t, a.cfg, a.act) for t in x.mtrace]
        ok = it == mt
        retok = (x.ret < 0) or ((x.ret & 1) == (x.mret & 1) and (x.ret == 0) == (x.mret == 0))
        stats['trace_ok' if ok else 'trace_diff'] += 1
        stats['ret_ok' if retok else 'ret_diff'] += 1
        if (not ok or not retok) and shown[0] < a.show:
            shown[0] += 1
            print('--- DIFF exec', x.index, 'hist', c.history_of(x.src), 'op', x.op, x.ev, 'tape', x.tape)
            print('  impl :', ' '.join(t.raw for t in x.trace), ' ret', x.ret)
            print('  model:', ' '.join(t.raw for t in x.mtrace), ' ret', x.mret)
            print('  src  :', c.canon[x.src])
    r = c.run(out, on_exec)
    print(a.zoo, a.cfg, 'states', r.states, 'exec', r.executions, 'closed', r.closed, r.cap, dict(stats), 'model_errors', r.model_errors)
main()
