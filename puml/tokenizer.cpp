// C14 (PlantUML half): the tokenizer of front/puml/puml.hpp is made of ordinary constexpr functions on
// std::string_view; they are called here at run time on EVERY string of the documented line grammar up
// to the stated bounds, and on every ordering of small multi-line documents.
//   usage: tokenizer <ws-level 2|3|4> [docs-lines 3|4]
#include <cstdio>
#include <cstdlib>
#include <string>
#include <string_view>
#include <vector>
#include <algorithm>
#include <boost/msm/front/puml/puml.hpp>

namespace pd = boost::msm::front::puml::detail;

static long g_lines = 0, g_bad = 0, g_docs = 0, g_docbad = 0, g_edge = 0;
static std::vector<std::string> g_reports, g_samples;

static void report(const std::string& what, const std::string& input) {
    ++g_bad;
    if (g_reports.size() < 12) {
        std::string in = input;
        for (auto& c : in) { if (c == '\n') c = '|'; if (c == '\t') c = '~'; }
        g_reports.push_back(what + " <= \"" + in + "\"");
    }
}
static std::string sv(std::string_view v) { return std::string(v); }

struct Parts {            // what the generator put into one transition line
    std::string src, tgt, evt, guard; std::vector<std::string> actions; bool internal = false; bool has_colon = false;
};

static std::string trim(const std::string& s) {
    auto a = s.find_first_not_of(" \t"); auto b = s.find_last_not_of(" \t");
    return a == std::string::npos ? std::string() : s.substr(a, b - a + 1);
}

static void check_line(const std::string& line, const Parts& p) {
    ++g_lines;
    pd::Transition t = pd::parse_row(line);
    if (sv(t.source) != p.src) report("source '" + sv(t.source) + "' expected '" + p.src + "'", line);
    std::string exp_tgt = p.internal ? "" : p.tgt;
    if (sv(t.target) != exp_tgt) report("target '" + sv(t.target) + "' expected '" + exp_tgt + "'", line);
    if (sv(t.event) != p.evt) report("event '" + sv(t.event) + "' expected '" + p.evt + "'", line);
    if (sv(t.guard) != trim(p.guard)) report("guard '" + sv(t.guard) + "' expected '" + trim(p.guard) + "'", line);
    // actions: number and each name
    int n = pd::count_actions(t.action);
    if (n != (int)p.actions.size()) report("action count " + std::to_string(n) + " expected " + std::to_string(p.actions.size()) + " (action text '" + sv(t.action) + "')", line);
    else {
        for (int i = 0; i < n; ++i) {
            std::string_view a = i == 0 ? pd::parse_action<0>(t.action) : i == 1 ? pd::parse_action<1>(t.action) : pd::parse_action<2>(t.action);
            if (sv(a) != p.actions[i]) report("action #" + std::to_string(i) + " '" + sv(a) + "' expected '" + p.actions[i] + "'", line);
        }
    }
    if (g_samples.size() < 3 && !p.actions.empty() && !p.guard.empty() && g_lines % 7919 == 0) g_samples.push_back(line);
}

int main(int argc, char** argv) {
    int wl = argc > 1 ? atoi(argv[1]) : 2;
    int doclines = argc > 2 ? atoi(argv[2]) : 3;
    std::vector<std::string> W = {"", " "};
    if (wl >= 3) W.push_back("\t");
    if (wl >= 4) W.push_back("  ");
    const std::vector<std::string> dashes = {"-", "--", "---", "----"};
    const std::vector<std::string> names_src = {"A", "St_2"}, names_tgt = {"B", "A"};
    const std::vector<std::string> evts = {"e1", "*", ""};
    // guard expressions of the documented kind: atoms, !, &&, ||, one parenthesised group, blanks around operators
    const std::vector<std::string> guards = {"", "G1", "!G1", "G1 && G2", "G1||G2", "!G1 && (G2 || G3)", "(G1 || G2) && !G3", "G1 && G2 || G3"};
    const std::vector<std::vector<std::string>> actionsets = {{}, {"a1"}, {"a1", "a2"}, {"a1", "a2", "a3"}};

    // ---------------------------------------------------------------- single lines, full product
    // positions of optional blanks: 0 before src, 1 after src, 2 after '>', 3 after tgt, 4 after ':', 5 after evt,
    // 6 after '/', 7 between actions (after ','), 8 before '[' (after the first optional part)
    const int NW = 9;
    std::vector<int> wi(NW, 0);
    while (true) {
        for (auto& d : dashes) for (auto& s : names_src) for (auto& tg : names_tgt) {
            // form 1: no colon
            {
                Parts p; p.src = s; p.tgt = tg;
                check_line(W[wi[0]] + s + W[wi[1]] + d + ">" + W[wi[2]] + tg + W[wi[3]], p);
            }
            for (auto& ev : evts) for (int internal = 0; internal < 2; ++internal) {
                if (internal && ev.empty()) continue;
                for (auto& g : guards) for (auto& as : actionsets) for (int order = 0; order < 2; ++order) {
                    if (order == 1 && (g.empty() || as.empty())) continue;   // order only matters when both parts exist
                    Parts p; p.src = s; p.tgt = internal ? s : tg; p.evt = ev; p.guard = g; p.actions = as; p.internal = internal; p.has_colon = true;
                    std::string line = W[wi[0]] + s + W[wi[1]] + d + ">" + W[wi[2]] + p.tgt + W[wi[3]] + ":" + W[wi[4]] + (internal ? "-" : "") + ev + W[wi[5]];
                    std::string apart, gpart;
                    if (!as.empty()) {
                        apart = "/" + W[wi[6]];
                        for (size_t i = 0; i < as.size(); ++i) { if (i) apart += "," + W[wi[7]]; apart += as[i]; }
                    }
                    if (!g.empty()) gpart = "[" + g + "]";
                    if (order == 0) line += apart + (apart.empty() ? "" : W[wi[8]]) + gpart;
                    else line += gpart + W[wi[8]] + apart;
                    check_line(line, p);
                }
            }
        }
        int k = NW - 1;
        while (k >= 0 && ++wi[k] == (int)W.size()) { wi[k] = 0; --k; }
        if (k < 0) break;
    }

    // ---------------------------------------------------------------- documents: every ordering of line kinds
    // kinds: I init "[*] -> X", T transition, Z terminate "X -> [*]", F "X : flag F1", E "X : entry a1", X "X : exit a2 [G1]"
    struct Line { char kind; std::string text; Parts p; std::string state; };
    std::vector<Line> pool;
    { Line l; l.kind = 'I'; l.text = "[*] -> A"; l.state = "A"; pool.push_back(l); }
    { Line l; l.kind = 'I'; l.text = "[*]--> P"; l.state = "P"; pool.push_back(l); }
    { Line l; l.kind = 'T'; l.text = "A -> B : e1 / a1 [G1]"; l.p.src = "A"; l.p.tgt = "B"; l.p.evt = "e1"; l.p.guard = "G1"; l.p.actions = {"a1"}; pool.push_back(l); }
    { Line l; l.kind = 'T'; l.text = "B --> A : e2 [!G2] / a1, a2"; l.p.src = "B"; l.p.tgt = "A"; l.p.evt = "e2"; l.p.guard = "!G2"; l.p.actions = {"a1", "a2"}; pool.push_back(l); }
    { Line l; l.kind = 'T'; l.text = "P -> P : -e3 / a3"; l.p.src = "P"; l.p.tgt = "P"; l.p.evt = "e3"; l.p.actions = {"a3"}; l.p.internal = true; pool.push_back(l); }
    { Line l; l.kind = 'Z'; l.text = "B -> [*]"; l.state = "B"; pool.push_back(l); }
    { Line l; l.kind = 'F'; l.text = "A : flag F1"; l.state = "A"; pool.push_back(l); }
    { Line l; l.kind = 'E'; l.text = "B : entry a1"; l.state = "B"; pool.push_back(l); }
    { Line l; l.kind = 'X'; l.text = "P : exit a2 [G1]"; l.state = "P"; pool.push_back(l); }
    // all sequences of `doclines` distinct pool lines (ordered), wrapped as the documentation shows
    std::vector<int> idx(doclines, 0);
    const int NP = (int)pool.size();
    while (true) {
        bool distinct = true;
        for (int i = 0; i < doclines; ++i) for (int j = i + 1; j < doclines; ++j) if (idx[i] == idx[j]) distinct = false;
        if (distinct) {
            for (int wrapped = 1; wrapped >= 0; --wrapped) {
                std::string doc = wrapped ? "\n@startuml M\nstate M{\n" : "";
                std::vector<const Line*> trans; std::vector<const Line*> inits; int terms = 0;
                for (int i = 0; i < doclines; ++i) {
                    const Line& l = pool[idx[i]];
                    doc += "  " + l.text + "\n";
                    if (l.kind == 'T') trans.push_back(&l);
                    if (l.kind == 'I') inits.push_back(&l);
                    if (l.kind == 'Z') terms++;
                }
                if (wrapped) doc += "}\n@enduml\n";
                else if (!doc.empty()) doc.pop_back();     // un-wrapped edge form: no newline around the first / last line
                bool ok = true; std::string why;
                try {
                    int ni = pd::count_inits(doc), nz = pd::count_terminates(doc), nt = pd::count_transitions(doc) - ni - nz;
                    if (ni != (int)inits.size()) { ok = false; why += " count_inits=" + std::to_string(ni) + " expected " + std::to_string(inits.size()) + ";"; }
                    if (nz != terms) { ok = false; why += " count_terminates=" + std::to_string(nz) + " expected " + std::to_string(terms) + ";"; }
                    if (nt != (int)trans.size()) { ok = false; why += " transitions=" + std::to_string(nt) + " expected " + std::to_string(trans.size()) + ";"; }
                    for (size_t t = 0; t < trans.size() && t < 3; ++t) {
                        pd::Transition r = t == 0 ? pd::parse_stt<0>(doc) : t == 1 ? pd::parse_stt<1>(doc) : pd::parse_stt<2>(doc);
                        const Parts& p = trans[t]->p;
                        if (sv(r.source) != p.src || sv(r.target) != (p.internal ? "" : p.tgt) || sv(r.event) != p.evt || sv(r.guard) != p.guard) {
                            ok = false; why += " transition #" + std::to_string(t) + " parsed as " + sv(r.source) + "->" + sv(r.target) + ":" + sv(r.event) + "[" + sv(r.guard) + "];";
                        }
                    }
                    for (size_t t = 0; t < inits.size() && t < 2; ++t) {
                        std::string_view r = t == 0 ? pd::parse_inits<0>(doc) : pd::parse_inits<1>(doc);
                        if (sv(r) != inits[t]->state) { ok = false; why += " initial state #" + std::to_string(t) + " = '" + sv(r) + "' expected '" + inits[t]->state + "';"; }
                    }
                } catch (std::exception& e) {
                    ok = false; why += std::string(" exception ") + e.what() + ";";
                }
                if (wrapped) {
                    ++g_docs;
                    if (!ok) { ++g_docbad; report("document:" + why, doc); --g_bad; }
                } else if (!ok) {
                    ++g_edge;      // un-wrapped forms are not in the documented usage: counted, not judged
                }
            }
        }
        int k = doclines - 1;
        while (k >= 0 && ++idx[k] == NP) { idx[k] = 0; --k; }
        if (k < 0) break;
    }
    printf("RESULT lines=%ld bad_lines=%ld documents=%ld bad_documents=%ld rejected_or_edge_inputs=%ld\n", g_lines, g_bad, g_docs, g_docbad, g_edge);
    for (auto& r : g_reports) printf("BAD %s\n", r.c_str());
    for (auto& s : g_samples) printf("SAMPLE %s\n", s.c_str());
    return (g_bad || g_docbad) ? 1 : 0;
}
