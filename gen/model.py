"""Reference model: a plain interpreter of a machine description, written from the property
statements and the documented run-to-completion algorithm.  It consumes the same environment answers
(by label) as the implementation and produces a trace in the same token format.

The step function (selection, bubbling, exit/action/entry order, history, pseudo states) is common.
The run-to-completion layer exists in two dialects, only where the documentation says the back-ends
differ:
  'back'  : back / back11 -- per machine a message queue and a separate deferred queue; completion
            events are re-tried after every handled event; deferral per region through the state's
            deferred_events or a Defer row; deferred queue before message queue
  'mp11'  : backmp11      -- per machine one event pool; completion occurrences are put at the front
            of the pool when their source state is entered; deferral is decided for the whole machine
            (recursively) before dispatch
Where an implementation detail contradicts a property statement the model follows the statement
(each such place is marked PROPERTY).
"""
from desc import *

HF, HT, HG, HD = 0, 1, 2, 4
DIRECT, MSGQ, DEFERRED = 1, 2, 4


class Injected(Exception):
    pass


class ModelError(Exception):
    pass


class Ev:
    __slots__ = ('name', 'serial', 'flags', 'seq', 'wrapped', 'anyof', 'kind', 'marked', 'region', 'state', 'origin')

    def __init__(self, name, serial, kind='e'):
        self.name = name        # event name, None = completion, '$start' / '$stop'
        self.serial = serial
        self.kind = kind        # 'e' event, 'c' completion occurrence (mp11 pool)
        self.flags = 0          # back: EventSource flags of a queued call
        self.seq = 0            # deferral sequence number
        self.wrapped = False    # back: direct_entry_event wrapper seen by the machine's own on_entry
        self.anyof = False      # Kleene row: callback receives an 'any' holding this event
        self.marked = False     # mp11: processed, waiting to be erased from the pool
        self.region = -1
        self.state = None
        self.origin = 'q'       # 'q' stored by enqueue_event / nested process_event, 'd' deferred by a state or a Defer action

    def clone(self):
        e = Ev(self.name, self.serial, self.kind)
        e.flags = self.flags
        e.seq = self.seq
        e.marked = self.marked
        e.region = self.region
        e.state = self.state
        e.origin = self.origin
        return e

    def plain(self):
        return Ev(self.name, self.serial)


class MS:
    """run-time state of one machine instance"""

    def __init__(self, m: Machine):
        self.m = m
        self.active = list(m.initial)          # the library initialises the ids to the initial states
        self.hist = list(m.initial)
        self.inside = False
        self.running = False                   # backmp11 m_running: set on first entry, cleared only by stop() on the root
        self.processing = False
        self.queue = []                        # message queue (back) / event pool (mp11)
        self.deferred = []                     # back: deferred queue
        self.cur_seq = 0
        self.subs = {s.name: MS(s.sub) for s in m.states if s.kind == 'sub'}
        self.parent = None
        for s in self.subs.values():
            s.parent = self

    def clone(self, parent=None):
        c = MS.__new__(MS)
        c.m = self.m
        c.active = list(self.active)
        c.hist = list(self.hist)
        c.inside = self.inside
        c.running = self.running
        c.processing = self.processing
        c.queue = [e.clone() for e in self.queue]
        c.deferred = [e.clone() for e in self.deferred]
        c.cur_seq = self.cur_seq
        c.parent = parent
        c.subs = {k: v.clone(c) for k, v in self.subs.items()}
        return c


class World:
    def __init__(self, zoo: Zoo, dialect: str, opts=None):
        self.z = zoo
        self.dialect = dialect
        self.opts = opts or {}
        self.root = MS(zoo.root)
        self.entries = {}
        self.parity = {}
        self.cmemo = {}
        self.next_serial = 1
        self.started = False
        self.seqmod = 256 if dialect == 'back' else 65536
        self.swallowed = set()  # serials dropped by a blocking state (C11): never replayed
        self.cur_op = ''
        # per operation
        self.tape = {}
        self.trace = []
        self.occ = {}
        self.asked = set()
        self.lost = []          # serials the model knows were dropped by design (blocking states, pool reset)
        self.flags = set()      # structural situations the known-findings file refers to
        self.tstack = []        # machines currently executing a transition / exit cascade

    def clone(self):
        w = self.__class__.__new__(self.__class__)
        w.z = self.z
        w.dialect = self.dialect
        w.opts = self.opts
        w.root = self.root.clone()
        w.entries = dict(self.entries)
        w.parity = dict(self.parity)
        w.cmemo = dict(self.cmemo)
        w.next_serial = self.next_serial
        w.started = self.started
        w.seqmod = self.seqmod
        w.swallowed = set(self.swallowed)
        w.cur_op = ''
        w.tape = {}
        w.trace = []
        w.occ = {}
        w.asked = set()
        w.lost = []
        w.flags = set()
        w.tstack = []
        return w

    # ------------------------------------------------------------------ environment
    def choose(self, label):
        self.asked.add(label)
        return self.tape.get(label, 0)

    def eid(self, ev: Ev):
        if ev.name is None:
            return 0
        if ev.name.startswith('$'):
            return -1
        base = self.z.eid[ev.name]
        if ev.anyof:
            base += 1000
        if ev.wrapped:
            base += 2000
        return base

    def evtok(self, ev: Ev):
        return f'{self.eid(ev)}#{ev.serial}'

    def acttok(self, ms: MS):
        return ','.join(str(ms.m.state(n).lib_id) for n in ms.active)

    def callback(self, K, fsm: MS, ident, ev: Ev, csrc=-1):
        owner = fsm.m.mid
        key = f'{K}.{owner}.{ident}.{ev.serial}'
        fresh = True
        if K == 'G' and ev.name is None and csrc >= 0:
            cm = self.cmemo.get(ident)
            if cm is not None and cm[1] == self.entries.get(csrc, 0):
                fresh = False
        k = 0
        if fresh:
            k = self.occ.get(key, 0)
            self.occ[key] = k + 1
        t = f'{K}:{owner}:{ident}:{self.evtok(ev)}:{self.acttok(fsm)}'
        answer = True
        if K == 'N':
            self.parity[ident] = self.parity.get(ident, 0) + 1
            self.entries[ident] = self.entries.get(ident, 0) + 1
        if K == 'X':
            self.parity[ident] = self.parity.get(ident, 0) - 1
        if K == 'G':
            if ev.name is None and csrc >= 0:
                cnt = self.entries.get(csrc, 0)
                cm = self.cmemo.get(ident)
                if cm is None or cm[1] != cnt:
                    c = self.choose(f'g{ident}.c{cnt}')
                    self.cmemo[ident] = (csrc, cnt, c)
                else:
                    c = cm[2]
            else:
                c = self.choose(f'g{ident}.{ev.serial}.{k}')
            answer = (c == 0)
            t += ':1' if answer else ':0'
        if self.opts.get('observe_flags'):
            act = self.active_states_rec(fsm)
            t += ':F' + ''.join('1' if any(fl in st.flags for st in act) else '0' for fl in self.z.flags)
            # a submachine that is the region's reported state but is not (or no longer) entered: whether
            # its stale substates count is not specified -- both readings are offered to the oracle
            act2 = self.active_states_rec(fsm, inside_only=True)
            t += '/' + ''.join('1' if any(fl in st.flags for st in act2) else '0' for fl in self.z.flags)
        self.trace.append(t)
        faults = self.opts.get('faults', False) and self.cur_op not in ('start', 'stop')
        n_menu = self.opts.get('n_menu', 0)
        pos_kind = K in 'GANXC' or (K == 'T' and self.opts.get('submit_in_nt', False))
        if pos_kind and fresh:
            can_throw = faults and K in 'GANX'
            n = 1 + (1 if can_throw else 0) + n_menu
            if n > 1:
                c = self.choose(f'p{key}.{k}')
                if c > 0:
                    if can_throw and c == 1:
                        self.trace.append('!throw')
                        raise Injected()
                    alt = c - 1 - (1 if can_throw else 0)
                    self.trace.append(f'!submit{alt}')
                    self.submit(fsm, alt)
                    self.trace.append('!submitted')
        return answer

    def deferq(self, st: State, ev: Ev):
        """backmp11 conditional deferral: the state's is_event_deferred() answer is a choice"""
        key = f'D.{st.sid}.{ev.serial}'
        k = self.occ.get(key, 0)
        self.occ[key] = k + 1
        c = self.choose(f'd{st.sid}.{ev.serial}.{k}')
        self.trace.append(f'D:{st.sid}:{self.evtok(ev)}:{"1" if c == 0 else "0"}')
        return c == 0

    def submit(self, fsm: MS, alt):
        api, ename, tgt = self.z.menu[alt]
        s = self.next_serial
        self.next_serial += 1
        self.trace.append(f'!new:{self.z.eid[ename]}#{s}:{api}:{tgt}:{fsm.m.mid}')
        target = fsm if tgt == 'local' else self.root
        ev = Ev(ename, s)
        if not target.processing and self.tstack:
            # a behaviour running inside some machine's transition talks to a machine that is not
            # marked as processing (exit cascade of a submachine driven by an enclosing machine, stop())
            self.flags.add('submission-to-idle-machine-during-foreign-step:' + api)
        if api == 'pe':
            self.api_process_event(target, ev)
        elif api == 'eq':
            self.api_enqueue(target, ev)
        elif api == 'df':
            self.api_defer(target, ev)

    # ------------------------------------------------------------------ structure helpers
    def blocked(self, ms: MS, ev: Ev):
        """terminate state active, or interrupt state active and ev not one of its end events (C11)"""
        if not any(s.kind in ('terminate', 'interrupt') for s in ms.m.states):
            return False
        term = intr = endok = False
        for st in self.active_states_rec(ms):
            if st.kind == 'terminate':
                term = True
            if st.kind == 'interrupt':
                intr = True
                if ev.name is not None and ev.name in st.end_events:
                    endok = True
        return term or (intr and not endok)

    def active_states_rec(self, ms: MS, inside_only=False):
        out = []
        for n in ms.active:
            st = ms.m.state(n)
            out.append(st)
            if st.kind == 'sub' and (not inside_only or ms.subs[n].inside):
                out.extend(self.active_states_rec(ms.subs[n], inside_only))
        return out

    def match(self, trigger, ev: Ev):
        """trigger matches by exact type, public base class or Kleene"""
        if ev.name is None:
            return trigger is None
        if trigger is None:
            return False
        if trigger == '*':
            return True
        n = ev.name
        while n is not None:
            if n == trigger:
                return True
            n = self.z.bases.get(n)
        return False

    def has_completion(self, m: Machine):
        return any(r.evt is None for r in m.rows)

    def state_has_completion(self, m: Machine, sname):
        return any(r.evt is None and row_src_state(m, r) == sname for r in m.rows)

    # ------------------------------------------------------------------ the step function
    def dispatch(self, ms: MS, ev: Ev, direct: bool):
        """offer ev to every region of ms once, in order; then the machine-local internal table"""
        m = ms.m
        result = HF
        for r in range(len(m.initial)):
            result |= self.region_dispatch(ms, r, ev)
        if not (result & (HT | HD)) or (self.dialect == 'back' and not (result & HT)):
            result |= self.internal_table(ms, ev)
        if result == HF and direct and ev.name is not None:
            for r in range(len(m.initial)):
                self.callback('T', ms, m.state(ms.active[r]).lib_id, ev)
        return result

    def region_dispatch(self, ms: MS, r: int, ev: Ev):
        m = ms.m
        sname = ms.active[r]
        st = m.state(sname)
        res = HF
        if st.kind == 'sub' and ev.name is None and self.opts.get('cfg') == 'bc':
            # back with favor_compile_time builds no forwarding rows: a completion event raised in the
            # enclosing machine is not offered to the submachine (which handles its own on entry and
            # after its own steps)
            return HF
        if st.kind == 'sub':
            inner = self.sub_process(ms.subs[sname], ev)
            if inner & (HT | HD):
                return inner
            res |= inner
            if ms.active[r] != sname:
                return res
        # deferral through the state's deferred_events (back: a defer row for that state)
        if self.dialect == 'back' and ev.name is not None and ev.name in st.defer:
            self.back_defer(ms, ev)
            return res | HD
        cands = []
        for ir in reversed(st.irows):
            if self.match(ir.evt, ev):
                cands.append(('i', ir))
        for row in reversed(m.rows):
            if row_src_state(m, row) != sname:
                continue
            if not self.match(row.evt, ev):
                continue
            if isinstance(row.src, tuple):
                # exit-point row: candidate only while that exit point is active in the submachine
                if row.src[2] not in ms.subs[row.src[1]].active:
                    continue
            cands.append(('r', row))
        for kind, row in cands:
            e2 = ev
            if row.evt == '*':
                e2 = ev.plain()
                e2.anyof = True
            elif row.evt is not None and row.evt != ev.name:
                # base-class trigger: the behaviours see the event through a reference to the trigger type
                e2 = Ev(row.evt, ev.serial)
            if getattr(row, 'gexpr', None) is not None:
                if not self.eval_gexpr(ms, row.gexpr, e2):
                    res |= HG
                    continue
            elif row.g:
                csrc = st.sid if ev.name is None else -1
                if not self.callback('G', ms, row.gid, e2, csrc):
                    res |= HG
                    continue
            if kind == 'i' or row.tgt is None:
                res = (res & ~HG) | self.run_action(ms, row, e2, ev)
            else:
                res = (res & ~HG) | self.take(ms, r, row, e2, ev)
            return res
        return res

    def internal_table(self, ms: MS, ev: Ev):
        res = HF
        for ir in reversed(ms.m.irows):
            if not self.match(ir.evt, ev):
                continue
            e2 = ev
            if ir.evt == '*':
                e2 = ev.plain()
                e2.anyof = True
            elif ir.evt != ev.name:
                e2 = Ev(ir.evt, ev.serial)
            if ir.g and not self.callback('G', ms, ir.gid, e2):
                res |= HG
                continue
            return (res & ~HG) | self.run_action(ms, ir, e2, ev)
        return res

    def eval_gexpr(self, ms: MS, x, ev: Ev):
        """C++ semantics: ! binds tighter than &&, && tighter than ||, both short-circuit left to right"""
        if isinstance(x, str):
            return self.callback('G', ms, self.z.gatom[x], ev)
        if x[0] == 'not':
            return not self.eval_gexpr(ms, x[1], ev)
        if x[0] == 'and':
            return self.eval_gexpr(ms, x[1], ev) and self.eval_gexpr(ms, x[2], ev)
        if x[0] == 'or':
            return self.eval_gexpr(ms, x[1], ev) or self.eval_gexpr(ms, x[2], ev)
        raise ModelError(str(x))

    def do_actions(self, ms: MS, row, e2: Ev):
        if getattr(row, 'aseq', None) is not None:
            for a in row.aseq:
                self.callback('A', ms, self.z.aatom[a], e2)
        elif row.a:
            self.callback('A', ms, row.aid, e2)

    def run_action(self, ms: MS, row, e2: Ev, ev: Ev):
        if row.defer:
            self.action_defer(ms, ev)
            return HD
        self.do_actions(ms, row, e2)
        return HT

    # ------------------------------------------------------------------ transitions
    def take(self, ms: MS, r: int, row: Row, e2: Ev, ev: Ev):
        m = ms.m
        src = row_src_state(m, row)
        tgt = row_tgt_state(m, row)
        pol = {'before': 0, 'after_exit': 1, 'after_action': 2, 'after_entry': 3}[m.switch]
        self.tstack.append(ms)
        try:
            return self.take2(ms, r, row, e2, ev, src, tgt, pol)
        finally:
            self.tstack.pop()

    def take2(self, ms, r, row, e2, ev, src, tgt, pol):
        if pol == 0:
            ms.active[r] = tgt
        self.exit_state(ms, src, e2)
        if pol == 1:
            ms.active[r] = tgt
        res = HT
        if row.defer:
            self.action_defer(ms, ev)
            res = HD
        else:
            self.do_actions(ms, row, e2)
        if pol == 2:
            ms.active[r] = tgt
        self.enter_state(ms, tgt, e2, row.tgt if isinstance(row.tgt, tuple) else None)
        if pol == 3:
            ms.active[r] = tgt
        self.entered(ms, r, tgt)
        return res

    def exit_state(self, ms: MS, sname: str, ev: Ev):
        st = ms.m.state(sname)
        if st.kind == 'sub':
            self.exit_machine(ms.subs[sname], ev, ms)
        else:
            self.callback('X', ms, st.sid, ev)

    def exit_machine(self, sub: MS, ev: Ev, parent: MS):
        for r in range(len(sub.m.initial)):
            if self.dialect == 'mp11' and not sub.running:
                break       # backmp11 visits the active states of a machine only once it has been entered
            self.exit_state(sub, sub.active[r], ev)
        self.callback('X', parent if parent is not None else sub, sub.m.own_sid, ev)
        sub.hist = list(sub.active)
        sub.inside = False
        if self.dialect == 'back':
            h = sub.m.history
            keep = (h == 'always') or (isinstance(h, tuple) and ev.name in h[1])
            if not keep:
                for e in sub.deferred:
                    self.lost.append(e.serial)
                sub.deferred = []

    def enter_state(self, ms: MS, sname: str, ev: Ev, how=None):
        st = ms.m.state(sname)
        if st.kind == 'sub':
            self.enter_machine(ms.subs[sname], ev, ms, how)
        else:
            self.callback('N', ms, st.sid, ev)
            if st.kind == 'exit_pt':
                self.forward_exit(ms, st, ev)

    def entry_targets(self, sub: MS, ev: Ev, how):
        m = sub.m
        named = {}
        if how is not None:
            names = how[2] if how[0] == 'fork' else [how[2]]
            for n in names:
                named[m.state(n).region] = n
        targets = []
        for r in range(len(m.initial)):
            if r in named:
                targets.append(named[r])
            else:
                h = m.history
                if h is None:
                    targets.append(m.initial[r])
                elif h == 'always':
                    targets.append(sub.hist[r])
                else:
                    targets.append(sub.hist[r] if ev.name in h[1] else m.initial[r])
        return targets

    def history_applies(self, sub: MS, ev: Ev):
        h = sub.m.history
        return (h == 'always') or (isinstance(h, tuple) and ev.name in h[1])

    def enter_machine(self, sub: MS, ev: Ev, parent: MS, how=None):
        raise NotImplementedError

    def entered(self, ms: MS, r: int, sname: str):
        pass

    def forward_exit(self, sub: MS, st: State, ev: Ev):
        raise NotImplementedError

    # ------------------------------------------------------------------ driver operations
    def begin_op(self, tape: dict):
        self.tape = tape
        self.trace = []
        self.occ = {}
        self.asked = set()
        self.lost = []
        self.flags = set()
        self.tstack = []

    def op(self, name, evid, tape):
        """returns (ret, trace tokens)"""
        self.begin_op(tape)
        self.cur_op = name
        ret = -1
        root = self.root
        if name == 'start':
            self.do_start()
        elif name == 'stop':
            self.do_stop()
        elif name == 'pe':
            s = self.next_serial
            self.next_serial += 1
            ret = self.api_process_event(root, Ev(self.z.events[evid - 1], s))
        elif name == 'eq':
            s = self.next_serial
            self.next_serial += 1
            self.api_enqueue(root, Ev(self.z.events[evid - 1], s))
        elif name == 'xq':
            self.api_execute_queued(root)
        elif name == 'xs':
            self.api_execute_single(root)
        else:
            raise ModelError(name)
        return ret, list(self.trace)

    def do_stop(self):
        root = self.root
        if self.dialect == 'mp11' and not self.started:
            return
        self.started = False
        self.tstack.append(root)
        root_was_running = root.running
        try:
            self.exit_machine(root, Ev('$stop', -1), None)
        finally:
            self.tstack.pop()
        root.running = False
        del root_was_running

    # ------------------------------------------------------------------ observation
    def config(self):
        """active configuration by names, only for machines that are inside"""
        out = []

        def walk(ms):
            out.append((ms.m.mid, tuple(ms.active)))
            for n in ms.active:
                if ms.m.state(n).kind == 'sub':
                    walk(ms.subs[n])
        if self.root.inside:
            walk(self.root)
        return tuple(out)

    def config_ids(self):
        """configuration read through the active ids only (what current_state() reports at each level
        reachable through active submachine ids), regardless of entry/exit bookkeeping"""
        out = []

        def walk(ms):
            out.append((ms.m.mid, tuple(ms.active)))
            for n in ms.active:
                if ms.m.state(n).kind == 'sub':
                    walk(ms.subs[n])
        walk(self.root)
        return tuple(out)

    def deferred_serials(self):
        """serials that are pending because a state or a Defer action deferred them, in the order in
        which they were deferred (per machine, machines in pre-order)"""
        out = []

        def walk(ms):
            for e in ms.queue:
                if e.kind == 'e' and not e.marked and e.origin == 'd':
                    out.append(e.serial)
            for e in ms.deferred:
                out.append(e.serial)
            for s in ms.subs.values():
                walk(s)
        walk(self.root)
        return out

    def pending_serials(self):
        out = []

        def walk(ms):
            for e in ms.queue:
                if e.kind == 'e' and not e.marked:
                    out.append(e.serial)
            for e in ms.deferred:
                out.append(e.serial)
            for s in ms.subs.values():
                walk(s)
        walk(self.root)
        return sorted(out)

    def canon(self):
        """canonical model state: what the future behaviour can depend on"""
        def walk(ms):
            return (ms.m.mid, tuple(ms.active) if ms.inside else None, tuple(ms.hist) if ms.m.history is not None else None,
                    ms.processing, tuple((e.name, e.kind) for e in ms.queue if not e.marked), tuple(e.name for e in ms.deferred),
                    tuple(walk(s) for s in ms.subs.values()))
        cm = tuple(sorted((g, v[2]) for g, v in self.cmemo.items()
                          if self.entries.get(v[0], 0) == v[1] and self.parity.get(v[0], 0) == 1))
        return (walk(self.root), cm, self.started)


# =================================================================================================
class BackWorld(World):
    """run-to-completion layer of back / back11"""

    def has_deferred(self, m: Machine):
        return m.activate_deferred or any(s.defer for s in m.states) or any(
            (r.defer for r in m.rows)) or any(ir.defer for s in m.states for ir in s.irows) or any(ir.defer for ir in m.irows)

    def api_process_event(self, ms: MS, ev: Ev):
        return self.pei(ms, ev, DIRECT)

    def api_enqueue(self, ms: MS, ev: Ev):
        # PROPERTY (C06/C13): an event enqueued on a machine is an event sent to that machine: if nothing
        # handles it, that machine reports no_transition, as for process_event
        ev.flags = DIRECT | MSGQ
        ms.queue.append(ev)

    def api_defer(self, ms: MS, ev: Ev):
        self.back_defer(ms, ev)

    def api_execute_queued(self, ms: MS):
        self.drain(ms)

    def api_execute_single(self, ms: MS):
        if ms.queue:
            e = ms.queue.pop(0)
            self.pei(ms, e.plain(), e.flags)

    def sub_process(self, sub: MS, ev: Ev):
        return self.pei(sub, ev.plain(), 0)

    def back_defer(self, ms: MS, ev: Ev):
        e = ev.plain()
        e.seq = (ms.cur_seq + 1) % self.seqmod
        e.origin = 'd'
        ms.deferred.append(e)

    def action_defer(self, ms: MS, ev: Ev):
        self.back_defer(ms, ev)

    def pei(self, ms: MS, ev: Ev, src):
        """process_event_internal"""
        if ev.name is not None and self.blocked(ms, ev):
            if src & DEFERRED:
                # PROPERTY (C05/C11): a deferred event that is re-offered while the machine is blocked
                # is not a 'subsequently submitted' event: it stays deferred through the blockage
                self.back_defer(ms, ev)
                return HD
            self.lost.append(ev.serial)
            self.swallowed.add(ev.serial)
            return HT
        if ev.name is None and self.blocked(ms, ev):
            return HT
        if ms.processing:
            q = ev.plain()
            q.flags = DIRECT | MSGQ
            ms.queue.append(q)
            return HT
        ms.processing = True
        try:
            res = self.dispatch(ms, ev, bool(src & DIRECT) or ms.parent is None)
        except Injected:
            self.callback('C', ms, 0, ev)
            res = HF
        ms.processing = False
        if self.has_completion(ms.m) and (res & HT):
            self.pei(ms, Ev(None, -1), src | DIRECT)
        if not (src & DEFERRED):
            self.handle_deferred(ms, bool(res & HT))
            if not (src & MSGQ):
                self.drain(ms)
        return res

    def handle_deferred(self, ms: MS, new_seq):
        if not self.has_deferred(ms.m):
            return
        if new_seq:
            ms.cur_seq = (ms.cur_seq + 1) % self.seqmod
        not_only_deferred = False
        while ms.deferred:
            e = ms.deferred[0]
            if e.seq != ms.cur_seq:
                break
            ms.deferred.pop(0)
            res = self.pei(ms, e.plain(), DIRECT | DEFERRED)
            if res != HF and res != HD:
                not_only_deferred = True
            if not_only_deferred:
                break
        if not_only_deferred:
            # restore arrival order: events re-deferred in this pass carry the higher number.
            # PROPERTY (C05): arrival order is kept; the implementation compares the numbers as
            # signed char, which inverts the order at the wrap -- the model does not.
            hi = [e for e in ms.deferred if e.seq != ms.cur_seq]
            lo = [e for e in ms.deferred if e.seq == ms.cur_seq]
            ms.deferred = hi + lo
            for e in ms.deferred:
                e.seq = (ms.cur_seq + 1) % self.seqmod
            self.handle_deferred(ms, True)

    def drain(self, ms: MS):
        while ms.queue:
            e = ms.queue.pop(0)
            self.pei(ms, e.plain(), e.flags)

    def enter_machine(self, sub: MS, ev: Ev, parent: MS, how=None):
        """do_entry of a submachine"""
        m = sub.m
        own_ev = ev
        if how is not None:
            own_ev = ev.plain()
            own_ev.anyof = ev.anyof
            own_ev.wrapped = True
        targets = self.entry_targets(sub, ev, how)
        sub.active = list(self.entry_targets(sub, ev, None))
        sub.processing = True
        try:
            self.callback('N', parent, m.own_sid, own_ev)
            sub.inside = True
            sub.active = list(targets)
            for r in range(len(m.initial)):
                self.enter_state(sub, sub.active[r], ev)
            if how is not None and how[0] == 'entry':
                # entry point: the inner transition triggered by the same event; issued while the machine
                # still blocks, so it waits in the message queue
                self.pei(sub, ev.plain(), DIRECT)
        finally:
            # PROPERTY (C12): an entry behaviour that throws does not leave the submachine blocked ("not wedged")
            sub.processing = False
        # PROPERTY (C10): completion transitions of the entered states fire before any queued or
        # deferred event is dispatched
        if self.has_completion(m):
            self.pei(sub, Ev(None, -1), DIRECT | DEFERRED | MSGQ)
        self.handle_deferred(sub, True)
        self.drain(sub)

    def named_regions(self, sub, how):
        names = how[2] if how[0] == 'fork' else [how[2]]
        return {sub.m.state(n).region for n in names}

    def forward_exit(self, sub: MS, st: State, ev: Ev):
        fwd = Ev(st.exit_evt, ev.serial)
        self.pei(sub.parent, fwd, DIRECT)

    def do_start(self):
        """PROPERTY (C04): initial entry behaviours are part of a running step: events they submit
        are stored and dispatched afterwards (the implementation's start() does not block)."""
        root = self.root
        self.started = True
        ev = Ev('$start', -1)
        root.active = list(root.m.initial)
        root.processing = True
        self.callback('N', root, 0, ev)
        root.inside = True
        for r in range(len(root.m.initial)):
            self.enter_state(root, root.active[r], ev)
        root.processing = False
        if self.has_completion(root.m):
            self.pei(root, Ev(None, -1), DIRECT)
        self.drain(root)


# =================================================================================================
class Mp11World(World):
    """run-to-completion layer of backmp11"""

    def api_process_event(self, ms: MS, ev: Ev):
        return self.pei(ms, ev, 'direct')

    def api_enqueue(self, ms: MS, ev: Ev):
        self.pool_add(ms, ev, False)

    def api_defer(self, ms: MS, ev: Ev):
        self.pool_add(ms, ev, ms.processing)

    def api_execute_queued(self, ms: MS):
        self.process_pool(ms)

    def api_execute_single(self, ms: MS):
        self.process_pool(ms, 1)

    def sub_process(self, sub: MS, ev: Ev):
        return self.pei(sub, ev.plain(), 'sub')

    def pool_add(self, ms: MS, ev: Ev, next_rtc_seq, origin='q'):
        e = ev.plain()
        e.seq = ms.cur_seq if next_rtc_seq else (ms.cur_seq - 1) % self.seqmod
        e.origin = origin
        ms.queue.append(e)

    def action_defer(self, ms: MS, ev: Ev):
        self.pool_add(ms, ev, ms.processing, 'd')

    def is_deferred(self, ms: MS, ev: Ev):
        res = False
        for st in self.active_states_rec(ms):
            if ev.name in st.defer:
                if st.cond_defer:
                    res = self.deferq(st, ev) or res
                else:
                    res = True
        return res

    def pei(self, ms: MS, ev: Ev, info):
        if self.blocked(ms, ev):
            self.lost.append(ev.serial)
            self.swallowed.add(ev.serial)
            return HT
        if info != 'pool':
            if ms.processing:
                self.pool_add(ms, ev, False)
                return HD
            if info != 'sub' and self.is_deferred(ms, ev):
                self.pool_add(ms, ev, False, 'd')
                return HD
            ms.cur_seq = (ms.cur_seq + 1) % self.seqmod
        ms.processing = True
        try:
            res = self.dispatch(ms, ev, info != 'sub')
        except Injected:
            self.callback('C', ms, 0, ev)
            res = HF
        ms.processing = False
        if info != 'pool':
            self.process_pool(ms)
        return res

    def process_pool(self, ms: MS, max_events=None):
        if not ms.queue or ms.processing:
            return 0
        i = 0
        processed = 0
        while True:
            e = ms.queue[i]
            if e.marked:
                del ms.queue[i]
                if i == len(ms.queue):
                    break
                continue
            # PROPERTY (C04/C10): the single-step variant dispatches exactly the oldest event; completion
            # transitions of the states that event entered belong to the same step and are not counted
            if max_events is not None and processed >= max_events and e.kind != 'c':
                break
            if e.kind == 'c':
                e.marked = True
                r = self.completion_transition(ms, e)
            else:
                if e.seq == ms.cur_seq or self.is_deferred(ms, e):
                    r = None
                else:
                    e.marked = True
                    r = self.pei(ms, e.plain(), 'pool')
            if r is None:
                i += 1
                if i == len(ms.queue):
                    break
                continue
            if r != HD and e.kind != 'c':
                processed += 1
            i = 0
            if not (r & HD):
                ms.cur_seq = (ms.cur_seq + 1) % self.seqmod
            if i == len(ms.queue):
                break
        return processed

    def completion_transition(self, ms: MS, e: Ev):
        if self.blocked(ms, Ev(None, -1)) or any(s.kind == 'interrupt' for s in self.active_states_rec(ms)):
            return HT
        ev = Ev(None, -1)
        ms.processing = True
        res = HF
        try:
            # only the rows of the state that was entered, in the region it was entered in
            if ms.active[e.region] == e.state:
                res = self.region_completion(ms, e.region, ev)
        except Injected:
            self.callback('C', ms, 0, ev)
            res = HF
        ms.processing = False
        return res

    def region_completion(self, ms: MS, r: int, ev: Ev):
        return self.region_dispatch(ms, r, ev)

    def entered(self, ms: MS, r: int, sname: str):
        st = ms.m.state(sname)
        if st.kind != 'sub' and self.state_has_completion(ms.m, sname):
            c = Ev(None, -1, 'c')
            c.region = r
            c.state = sname
            ms.queue.insert(0, c)

    def enter_machine(self, sub: MS, ev: Ev, parent: MS, how=None):
        m = sub.m
        targets = self.entry_targets(sub, ev, how)
        sub.processing = True
        sub.running = True
        # PROPERTY (C04): events submitted from the machine's own entry behaviour are not lost; the
        # pool of a machine entered without (applicable) history is reset before that behaviour runs
        if not self.history_applies(sub, ev):
            for e in sub.queue:
                if e.kind == 'e' and not e.marked:
                    self.lost.append(e.serial)
            sub.queue = []
        try:
            self.callback('N', parent if parent is not None else sub, m.own_sid, ev)
            sub.inside = True
            sub.active = list(targets)
            for r in range(len(m.initial)):
                self.enter_state(sub, sub.active[r], ev)
                self.entered(sub, r, sub.active[r])
        finally:
            # PROPERTY (C12): an entry behaviour that throws does not leave the machine blocked ("not wedged")
            sub.processing = False
        self.process_pool(sub)
        if how is not None and how[0] == 'entry':
            self.pei(sub, ev.plain(), 'direct')

    def forward_exit(self, sub: MS, st: State, ev: Ev):
        fwd = Ev(st.exit_evt, ev.serial)
        self.pool_add(self.root, fwd, False)

    def do_start(self):
        if self.started:
            return
        self.started = True
        self.enter_machine(self.root, Ev('$start', -1), None)


def make_world(zoo, dialect, opts=None):
    return BackWorld(zoo, dialect, opts) if dialect == 'back' else Mp11World(zoo, dialect, opts)
