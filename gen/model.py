"""Reference model: a plain interpreter of a machine description, written from the property
statements and the documented run-to-completion algorithm.  It consumes the same environment answers
(by label) as the implementation and produces a trace in the same token format.

Dialects (only where the documentation says the back-ends differ):
  'back'  : back / back11  -- message queue + separate deferred queue per machine, completion re-tried
            after every handled event, deferral per region through a defer row
  'mp11'  : backmp11       -- one event pool per machine, completion only on entry, deferral decided
            for the whole machine before dispatch
"""
import copy
from desc import *

HF, HT, HG, HD = 0, 1, 2, 4


class Injected(Exception):
    pass


class ModelError(Exception):
    pass


class Ev:
    __slots__ = ('name', 'serial', 'kind', 'fresh', 'wrapped', 'anyof')

    def __init__(self, name, serial, kind='e'):
        self.name = name        # event name, None = completion, '$start' / '$stop'
        self.serial = serial
        self.kind = kind
        self.fresh = False
        self.wrapped = False    # back: direct_entry_event wrapper seen by the machine's own on_entry
        self.anyof = False      # Kleene row: callback receives an 'any' holding this event

    def clone(self):
        e = Ev(self.name, self.serial, self.kind)
        e.fresh = self.fresh
        return e


class MS:
    """run-time state of one machine instance"""

    def __init__(self, m: Machine):
        self.m = m
        n = len(m.initial)
        self.active = list(m.initial)          # library initialises the ids to the initial states
        self.hist = list(m.initial)
        self.inside = False
        self.processing = False
        self.queue = []                        # pending submissions (message queue / event pool)
        self.deferred = []                     # back dialect: deferred queue
        self.subs = {s.name: MS(s.sub) for s in m.states if s.kind == 'sub'}

    def clone(self):
        c = MS.__new__(MS)
        c.m = self.m
        c.active = list(self.active)
        c.hist = list(self.hist)
        c.inside = self.inside
        c.processing = self.processing
        c.queue = [e.clone() for e in self.queue]
        c.deferred = [e.clone() for e in self.deferred]
        c.subs = {k: v.clone() for k, v in self.subs.items()}
        return c


class World:
    def __init__(self, zoo: Zoo, dialect: str, opts=None):
        self.z = zoo
        self.dialect = dialect
        self.opts = opts or {}
        self.root = MS(zoo.root)
        self.entries = {}
        self.parity = {}
        self.cmemo = {}
        self.next_serial = 1
        self.started = False
        # per operation
        self.tape = {}
        self.trace = []
        self.occ = {}
        self.asked = set()
        self.depth = 0

    def clone(self):
        w = World.__new__(World)
        w.z = self.z
        w.dialect = self.dialect
        w.opts = self.opts
        w.root = self.root.clone()
        w.entries = dict(self.entries)
        w.parity = dict(self.parity)
        w.cmemo = dict(self.cmemo)
        w.next_serial = self.next_serial
        w.started = self.started
        w.tape = {}
        w.trace = []
        w.occ = {}
        w.asked = set()
        w.depth = 0
        return w

    # ------------------------------------------------------------------ environment
    def choose(self, label):
        self.asked.add(label)
        return self.tape.get(label, 0)

    def eid(self, ev: Ev):
        if ev.name is None:
            return 0
        if ev.name.startswith('$'):
            return -1
        base = self.z.eid[ev.name]
        if ev.anyof:
            base += 1000
        if ev.wrapped:
            base += 2000
        return base

    def evtok(self, ev: Ev):
        return f'{self.eid(ev)}#{ev.serial}'

    def acttok(self, ms: MS):
        return ','.join(str(ms.m.state(n).lib_id) for n in ms.active)

    def callback(self, K, fsm: MS, ident, ev: Ev, csrc=-1):
        owner = fsm.m.mid
        key = f'{K}.{owner}.{ident}.{ev.serial}'
        k = self.occ.get(key, 0)
        self.occ[key] = k + 1
        t = f'{K}:{owner}:{ident}:{self.evtok(ev)}:{self.acttok(fsm)}'
        answer = True
        if K == 'N':
            self.parity[ident] = self.parity.get(ident, 0) + 1
            self.entries[ident] = self.entries.get(ident, 0) + 1
        if K == 'X':
            self.parity[ident] = self.parity.get(ident, 0) - 1
        if K == 'G':
            if ev.name is None and csrc >= 0:
                cnt = self.entries.get(csrc, 0)
                cm = self.cmemo.get(ident)
                if cm is None or cm[1] != cnt:
                    c = self.choose(f'g{ident}.c{cnt}')
                    self.cmemo[ident] = (csrc, cnt, c)
                else:
                    c = cm[2]
            else:
                c = self.choose(f'g{ident}.{ev.serial}.{k}')
            answer = (c == 0)
            t += ':1' if answer else ':0'
        self.trace.append(t)
        faults = self.opts.get('faults', False)
        n_menu = self.opts.get('n_menu', 0)
        pos_kind = K in 'GANXC' or (K == 'T' and self.opts.get('submit_in_nt', False))
        if pos_kind:
            can_throw = faults and K in 'GANX'
            n = 1 + (1 if can_throw else 0) + n_menu
            if n > 1:
                c = self.choose(f'p{key}.{k}')
                if c > 0:
                    if can_throw and c == 1:
                        self.trace.append('!throw')
                        raise Injected()
                    alt = c - 1 - (1 if can_throw else 0)
                    self.trace.append(f'!submit{alt}')
                    self.submit(fsm, alt)
                    self.trace.append('!submitted')
        return answer

    def submit(self, fsm: MS, alt):
        api, ename, tgt = self.z.menu[alt]
        s = self.next_serial
        self.next_serial += 1
        self.trace.append(f'!new:{self.z.eid[ename]}#{s}:{api}:{tgt}:{fsm.m.mid}')
        target = fsm if tgt == 'local' else self.root
        ev = Ev(ename, s)
        if api == 'pe':
            self.process_event(target, ev, direct=True)
        elif api == 'eq':
            self.enqueue(target, ev)
        elif api == 'df':
            self.defer_api(target, ev)

    # ------------------------------------------------------------------ structure helpers
    def is_blocking_active(self, ms: MS, ev: Ev):
        """terminate state active, or interrupt state active and ev not one of its end events (C11)"""
        term = False
        intr = False
        endok = False
        for n in self.active_states_rec(ms):
            st = n
            if st.kind == 'terminate':
                term = True
            if st.kind == 'interrupt':
                intr = True
                if ev.name in st.end_events:
                    endok = True
        if term:
            return True
        if intr and not endok:
            return True
        return False

    def has_blocking(self, m: Machine):
        return any(s.kind in ('terminate', 'interrupt') for s in m.states)

    def active_states_rec(self, ms: MS):
        out = []
        for n in ms.active:
            st = ms.m.state(n)
            out.append(st)
            if st.kind == 'sub':
                out.extend(self.active_states_rec(ms.subs[n]))
        return out

    def match(self, trigger, ev: Ev):
        """trigger matches by exact type, public base class or Kleene"""
        if ev.name is None:
            return trigger is None
        if trigger is None:
            return False
        if trigger == '*':
            return self.dialect_kleene_ok()
        n = ev.name
        while n is not None:
            if n == trigger:
                return True
            n = self.z.bases.get(n)
        return False

    def dialect_kleene_ok(self):
        return True

    # ------------------------------------------------------------------ the step function
    def dispatch(self, ms: MS, ev: Ev, direct: bool):
        """offer ev to every region of ms once, in order; then the machine-local internal table"""
        m = ms.m
        result = HF
        for r in range(len(m.initial)):
            result |= self.region_dispatch(ms, r, ev)
        if not (result & (HT | HD)):
            result |= self.internal_table(ms, ev)
        if result == HF and direct and ev.name is not None:
            for r in range(len(m.initial)):
                self.callback('T', ms, m.state(ms.active[r]).lib_id, ev)
        return result

    def region_dispatch(self, ms: MS, r: int, ev: Ev):
        m = ms.m
        sname = ms.active[r]
        st = m.state(sname)
        res = HF
        if st.kind == 'sub':
            inner = self.process_event(ms.subs[sname], ev, direct=False, from_parent=True)
            if inner & (HT | HD):
                return inner
            res |= inner
            if ms.active[r] != sname:
                # the submachine was left while it processed the event (exit point); nothing further
                return res
        # deferral through the state's deferred_events (back dialect: a defer row for that state)
        if self.dialect == 'back' and ev.name is not None and self.state_defers(st, ev):
            self.defer_store(ms, ev)
            return res | HD
        cands = []
        for ir in reversed(st.irows):
            if self.match(ir.evt, ev):
                cands.append(('i', ir))
        for row in reversed(m.rows):
            if row_src_state(m, row) != sname:
                continue
            if not self.match(row.evt, ev):
                continue
            if isinstance(row.src, tuple):
                # exit-point row: candidate only while that exit point is active in the submachine
                sub = ms.subs[row.src[1]]
                if row.src[2] not in sub.active:
                    continue
            cands.append(('r', row))
        for kind, row in cands:
            e2 = ev
            if row.evt == '*':
                e2 = Ev(ev.name, ev.serial)
                e2.anyof = True
            if row.g:
                csrc = st.sid if ev.name is None else -1
                if not self.callback('G', ms, row.gid, e2, csrc):
                    res |= HG
                    continue
            if kind == 'i' or row.tgt is None:
                res = (res & ~HG) | self.run_action(ms, row, e2, ev)
            else:
                res = (res & ~HG) | self.take(ms, r, row, e2, ev)
            return res
        return res

    def state_defers(self, st: State, ev: Ev):
        n = ev.name
        while n is not None:
            if n in st.defer:
                return True
            n = None  # deferral lists match the exact type
        return False

    def internal_table(self, ms: MS, ev: Ev):
        res = HF
        for ir in reversed(ms.m.irows):
            if not self.match(ir.evt, ev):
                continue
            e2 = ev
            if ir.evt == '*':
                e2 = Ev(ev.name, ev.serial)
                e2.anyof = True
            if ir.g and not self.callback('G', ms, ir.gid, e2):
                res |= HG
                continue
            return (res & ~HG) | self.run_action(ms, ir, e2, ev)
        return res

    def run_action(self, ms: MS, row, e2: Ev, ev: Ev):
        if row.defer:
            self.defer_action(ms, ev)
            return HD
        if row.a:
            self.callback('A', ms, row.aid, e2)
        return HT

    # ------------------------------------------------------------------ transitions
    def switch_at(self, ms: MS, phase):
        pol = ms.m.switch
        order = {'before': 0, 'after_exit': 1, 'after_action': 2, 'after_entry': 3}
        return order[pol] <= phase

    def take(self, ms: MS, r: int, row: Row, e2: Ev, ev: Ev):
        m = ms.m
        src = row_src_state(m, row)
        tgt = row_tgt_state(m, row)
        pol = {'before': 0, 'after_exit': 1, 'after_action': 2, 'after_entry': 3}[m.switch]
        if pol == 0:
            ms.active[r] = tgt
        self.exit_state(ms, src, e2)
        if pol == 1:
            ms.active[r] = tgt
        res = HT
        if row.defer:
            self.defer_action(ms, ev)
            res = HD
        elif row.a:
            self.callback('A', ms, row.aid, e2)
        if pol == 2:
            ms.active[r] = tgt
        self.enter_state(ms, tgt, e2, row.tgt if isinstance(row.tgt, tuple) else None)
        if pol == 3:
            ms.active[r] = tgt
        # exit point reached inside a submachine: the enclosing machine takes the connected transition
        self.after_entry_hooks(ms, r, tgt, e2)
        return res

    def exit_state(self, ms: MS, sname: str, ev: Ev):
        st = ms.m.state(sname)
        if st.kind == 'sub':
            self.exit_machine(ms.subs[sname], ev, ms)
        else:
            self.callback('X', ms, st.sid, ev)

    def exit_machine(self, sub: MS, ev: Ev, parent: MS):
        for r in range(len(sub.m.initial)):
            self.exit_state(sub, sub.active[r], ev)
        self.callback('X', parent if parent is not None else sub, sub.m.own_sid, ev)
        sub.hist = list(sub.active)
        sub.inside = False
        self.on_machine_exit(sub, ev)

    def on_machine_exit(self, sub: MS, ev: Ev):
        if self.dialect == 'back':
            keep = False
            h = sub.m.history
            if h == 'always':
                keep = True
            elif isinstance(h, tuple) and ev.name in h[1]:
                keep = True
            if not keep:
                sub.deferred = []

    def enter_state(self, ms: MS, sname: str, ev: Ev, how=None):
        st = ms.m.state(sname)
        if st.kind == 'sub':
            self.enter_machine(ms.subs[sname], ev, ms, how)
        else:
            self.callback('N', ms, st.sid, ev)

    def enter_machine(self, sub: MS, ev: Ev, parent: MS, how=None):
        m = sub.m
        own_ev = ev
        if how is not None and self.dialect == 'back':
            own_ev = Ev(ev.name, ev.serial)
            own_ev.anyof = ev.anyof
            own_ev.wrapped = True
        named = {}
        if how is not None:
            kind = how[0]
            names = how[2] if kind == 'fork' else [how[2]]
            for n in names:
                named[m.state(n).region] = n
        # which state becomes active in each region
        targets = []
        for r in range(len(m.initial)):
            if r in named:
                targets.append(named[r])
            else:
                h = m.history
                if h is None:
                    targets.append(m.initial[r])
                elif h == 'always':
                    targets.append(sub.hist[r])
                else:
                    targets.append(sub.hist[r] if ev.name in h[1] else m.initial[r])
        if self.dialect == 'mp11':
            # the pool of a machine without (applicable) history is reset on entry
            h = m.history
            if h is None or (isinstance(h, tuple) and ev.name not in h[1]):
                sub.queue = []
        sub.processing = True
        try:
            self.callback('N', parent if parent is not None else sub, m.own_sid, own_ev)
            sub.inside = True
            sub.active = list(targets)
            order = range(len(m.initial))
            for r in order:
                self.enter_state(sub, sub.active[r], ev)
                self.note_entered(sub, r, sub.active[r])
        finally:
            sub.processing = False
        if how is not None and how[0] == 'entry':
            # entry point: continue with the inner transition triggered by the same event
            e3 = Ev(ev.name, ev.serial)
            self.process_event(sub, e3, direct=True)
        self.after_machine_entry(sub)

    # ------------------------------------------------------------------ RTC layer
    def note_entered(self, ms: MS, r: int, sname: str):
        pass

    def after_entry_hooks(self, ms: MS, r: int, tgt: str, ev: Ev):
        st = ms.m.state(tgt)
        if st.kind == 'exit_pt':
            self.forward_exit(ms, st, ev)

    def forward_exit(self, sub: MS, st: State, ev: Ev):
        """the converted event goes to the enclosing machine (back) / the root (backmp11), which takes
        the connected transition as soon as its running step is over"""
        fwd = Ev(st.exit_evt, ev.serial)
        target = self.parent_of(sub) if self.dialect == 'back' else self.root
        if self.dialect == 'back':
            self.process_event(target, fwd, direct=True)
        else:
            self.enqueue(target, fwd)
            if not target.processing:
                self.drain(target)

    def parent_of(self, sub: MS):
        def walk(ms):
            for s in ms.subs.values():
                if s is sub:
                    return ms
                r = walk(s)
                if r is not None:
                    return r
            return None
        return walk(self.root)

    def after_machine_entry(self, sub: MS):
        self.completion(sub)
        self.drain(sub)

    def enqueue(self, ms: MS, ev: Ev):
        ev.kind = 'q'
        ms.queue.append(ev)

    def process_event(self, ms: MS, ev: Ev, direct: bool, from_parent=False, from_queue=False):
        if self.has_blocking(ms.m) and ev.name is not None and self.is_blocking_active(ms, ev):
            return HT
        if ms.processing:
            ms.queue.append(ev)
            return HT
        if self.dialect == 'mp11' and not from_parent and not from_queue and ev.name is not None and self.mp11_is_deferred(ms, ev):
            ev.kind = 'd'
            ms.queue.append(ev)
            return HD
        ms.processing = True
        try:
            res = self.dispatch(ms, ev, direct)
        except Injected:
            self.callback('C', ms, 0, ev)
            res = HF
        finally:
            ms.processing = False
        if from_queue and self.dialect == 'mp11':
            return res
        self.post_step(ms, res, from_queue)
        return res

    def post_step(self, ms: MS, res, from_queue):
        if self.dialect == 'back':
            if res & HT:
                self.completion(ms)
            if not from_queue:
                self.drain(ms)
        else:
            self.completion(ms)
            self.drain(ms)

    def completion(self, ms: MS):
        """fire enabled completion transitions of the active states of ms, chains included"""
        if not any(r.evt is None for r in ms.m.rows):
            return
        progress = True
        while progress:
            progress = False
            if self.has_blocking(ms.m) and self.is_blocking_active(ms, Ev(None, -1)):
                return
            ev = Ev(None, -1)
            ms.processing = True
            try:
                res = HF
                for r in range(len(ms.m.initial)):
                    res |= self.region_dispatch(ms, r, ev)
            except Injected:
                self.callback('C', ms, 0, ev)
                res = HF
            finally:
                ms.processing = False
            if res & HT:
                progress = True

    def drain(self, ms: MS):
        while ms.queue:
            ev = ms.queue.pop(0)
            self.process_event(ms, ev, direct=(ev.kind != 'fromparent'), from_queue=True)
            if self.dialect == 'back':
                pass

    def mp11_is_deferred(self, ms: MS, ev: Ev):
        return False

    def defer_store(self, ms: MS, ev: Ev):
        raise ModelError('deferral not modelled yet')

    def defer_action(self, ms: MS, ev: Ev):
        raise ModelError('deferral not modelled yet')

    def defer_api(self, ms: MS, ev: Ev):
        raise ModelError('deferral not modelled yet')

    # ------------------------------------------------------------------ driver operations
    def begin_op(self, tape: dict):
        self.tape = tape
        self.trace = []
        self.occ = {}
        self.asked = set()

    def op(self, name, evid, tape):
        """returns (ret, trace tokens)"""
        self.begin_op(tape)
        ret = -1
        root = self.root
        if name == 'start':
            self.do_start()
        elif name == 'stop':
            self.do_stop()
        elif name == 'pe':
            s = self.next_serial
            self.next_serial += 1
            ev = Ev(self.z.events[evid - 1], s)
            ret = self.process_event(root, ev, direct=True)
        elif name == 'eq':
            s = self.next_serial
            self.next_serial += 1
            self.enqueue(root, Ev(self.z.events[evid - 1], s))
        elif name == 'xq':
            if not root.processing:
                self.drain(root)
        elif name == 'xs':
            if root.queue and not root.processing:
                ev = root.queue.pop(0)
                self.process_event(root, ev, direct=True, from_queue=True)
        else:
            raise ModelError(name)
        return ret, list(self.trace)

    def do_start(self):
        root = self.root
        ev = Ev('$start', -1)
        if self.dialect == 'mp11' and self.started:
            return
        self.started = True
        if self.dialect == 'back':
            root.active = list(root.m.initial)
        self.enter_machine(root, ev, None)

    def do_stop(self):
        root = self.root
        if self.dialect == 'mp11' and not self.started:
            return
        self.started = False
        self.exit_machine(root, Ev('$stop', -1), None)

    # ------------------------------------------------------------------ observation
    def config(self):
        """active configuration by names, only for machines that are inside"""
        out = []

        def walk(ms):
            out.append((ms.m.mid, tuple(ms.active)))
            for n in ms.active:
                if ms.m.state(n).kind == 'sub':
                    walk(ms.subs[n])
        if self.root.inside:
            walk(self.root)
        return tuple(out)

    def pending(self):
        n = 0

        def walk(ms):
            nonlocal n
            n += len(ms.queue) + len(ms.deferred)
            for s in ms.subs.values():
                walk(s)
        walk(self.root)
        return n

    def canon(self):
        """canonical model state: what the future behaviour can depend on"""
        def walk(ms):
            return (ms.m.mid, tuple(ms.active) if ms.inside else None, tuple(ms.hist) if ms.m.history is not None else None,
                    ms.processing, tuple((e.name, e.kind) for e in ms.queue), tuple((e.name, e.kind) for e in ms.deferred),
                    tuple(walk(s) for s in ms.subs.values()))
        cm = tuple(sorted((g, v[2]) for g, v in self.cmemo.items()
                          if self.entries.get(v[0], 0) == v[1] and self.parity.get(v[0], 0) == 1))
        return (walk(self.root), cm, self.started)
