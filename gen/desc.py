"""Machine description DSL shared by the C++ emitter and the Python reference model.

A description is pure structure: states, regions, rows in declaration order, deferral lists, flags,
history, pseudo states.  Behaviour (guard results, throws, nested submissions) is run-time data
chosen by the explorer, never part of a description.
"""
from dataclasses import dataclass, field
from typing import List, Optional, Tuple, Union


@dataclass
class IRow:                      # row of a state-local or machine-local internal_transition_table
    evt: str                     # event name, '*' = Kleene (any)
    a: bool = True               # has an action
    g: bool = True               # has a guard
    defer: bool = False          # action is front::Defer
    gid: int = -1
    aid: int = -1


@dataclass
class Row:                       # row of a transition_table
    src: Union[str, Tuple]       # state name | ('exit', sub, exitpt)
    evt: Optional[str]           # event name | None (completion) | '*' (Kleene)
    tgt: Union[str, Tuple, None]  # state name | None (internal row written in the table) |
                                  # ('direct', sub, st) | ('fork', sub, [st..]) | ('entry', sub, pt)
    a: bool = True
    g: bool = True
    defer: bool = False          # action is front::Defer
    gid: int = -1
    aid: int = -1
    gexpr: object = None         # guard expression over named atoms: 'G1' | ('not', x) | ('and', x, y) | ('or', x, y)
    aseq: object = None          # list of named actions, run in written order
    local: bool = False          # front-end variants: an internal row (tgt None) that the functor front-end writes in the
                                 # source state's own internal_transition_table (Internal<>), the others in the main table


@dataclass
class State:
    name: str
    kind: str = 'simple'         # simple | sub | terminate | interrupt | entry_pt | exit_pt | explicit
    zone: int = -1               # for entry_pt / explicit
    defer: List[str] = field(default_factory=list)
    cond_defer: bool = False     # backmp11 only: is_event_deferred() answer is a run-time choice
    flags: List[str] = field(default_factory=list)
    irows: List[IRow] = field(default_factory=list)
    end_events: List[str] = field(default_factory=list)   # interrupt
    exit_evt: Optional[str] = None                        # exit_pt: event type forwarded
    sub: Optional['Machine'] = None
    sid: int = -1                # global id used in the log
    region: int = -1             # computed
    lib_id: int = -1             # id expected from the documented numbering rule (computed)


@dataclass
class Machine:
    name: str
    states: List[State]
    initial: List[str]
    rows: List[Row]
    irows: List[IRow] = field(default_factory=list)       # machine-local internal table
    history: Union[None, str, Tuple] = None               # None | 'always' | ('shallow', [evts])
    explicit_creation: List[str] = field(default_factory=list)
    switch: str = 'after_entry'  # active state switch policy
    activate_deferred: bool = False
    mid: int = -1
    parent: Optional['Machine'] = None

    def state(self, n):
        for s in self.states:
            if s.name == n:
                return s
        raise KeyError(n)


@dataclass
class Zoo:
    name: str
    events: List[str]            # plain event names (ids 1..n in this order)
    root: Machine
    flags: List[str] = field(default_factory=list)
    bases: dict = field(default_factory=dict)    # event -> base event (public inheritance)
    menu: List[Tuple[str, str, str]] = field(default_factory=list)  # (api, evt, 'local'|'root'); api: pe|eq|df
    exit_conv: List[str] = field(default_factory=list)  # events constructible from any other event (exit point events)
    configs: List[str] = field(default_factory=lambda: ['b', 'bc', 'bq', 'b11', 'm', 'mf', 'mc'])
    atoms_g: List[str] = field(default_factory=list)     # named guard atoms (ids 101..)
    atoms_a: List[str] = field(default_factory=list)     # named actions (ids 101..)
    frontend: str = 'functor'    # functor | basic | basic2 | puml
    cxx: str = '17'
    no_exceptions: bool = False
    user_kleene: bool = False    # Kleene rows use a user-declared Kleene type (is_kleene_event specialisation) instead of boost::any / std::any

    # ---- derived tables ----
    def machines(self):
        out = []

        def walk(m):
            out.append(m)
            for s in m.states:
                if s.kind == 'sub':
                    walk(s.sub)
        walk(self.root)
        return out

    def finalize(self):
        self.eid = {e: i + 1 for i, e in enumerate(self.events)}
        self.gatom = {g: 101 + i for i, g in enumerate(self.atoms_g)}
        self.aatom = {a: 101 + i for i, a in enumerate(self.atoms_a)}
        mid = 0
        sid = 1
        gid = 1
        aid = 1
        self.root_sid = 0
        # machine ids pre-order; state ids pre-order
        def walk(m, parent, own_sid):
            nonlocal mid, sid, gid, aid
            m.mid = mid
            mid += 1
            m.parent = parent
            m.own_sid = own_sid
            for s in m.states:
                s.sid = sid
                sid += 1
            for r in m.rows:
                if r.gexpr is not None:
                    r.g = True
                elif r.g:
                    r.gid = gid
                    gid += 1
                if r.aseq is not None:
                    r.a = True
                elif r.a and not r.defer:
                    r.aid = aid
                    aid += 1
            for s in m.states:
                for r in s.irows:
                    if r.g:
                        r.gid = gid
                        gid += 1
                    if r.a and not r.defer:
                        r.aid = aid
                        aid += 1
            for r in m.irows:
                if r.g:
                    r.gid = gid
                    gid += 1
                if r.a and not r.defer:
                    r.aid = aid
                    aid += 1
            for s in m.states:
                if s.kind == 'sub':
                    s.sub.name_in_parent = s.name
                    walk(s.sub, m, s.sid)
        walk(self.root, None, 0)
        for m in self.machines():
            compute_regions(m)
            compute_lib_ids(m)
        return self


def row_src_state(m: Machine, r: Row) -> str:
    """name of the state of m whose activity makes r a candidate"""
    if isinstance(r.src, tuple):
        return r.src[1]
    return r.src


def row_tgt_state(m: Machine, r: Row) -> Optional[str]:
    if r.tgt is None:
        return None
    if isinstance(r.tgt, tuple):
        return r.tgt[1]
    return r.tgt


def compute_regions(m: Machine):
    """region of a state = region of the initial state it is reachable from (documented rule);
    explicit / entry pseudo states carry their zone."""
    for s in m.states:
        s.region = -1
    for s in m.states:
        if s.zone >= 0:
            s.region = s.zone
    changed = True
    for i, n in enumerate(m.initial):
        m.state(n).region = i
    while changed:
        changed = False
        for r in m.rows:
            if r.tgt is None:
                continue
            a = m.state(row_src_state(m, r))
            b = m.state(row_tgt_state(m, r))
            if a.region >= 0 and b.region < 0:
                b.region = a.region
                changed = True
            if b.region >= 0 and a.region < 0:
                a.region = b.region
                changed = True
    for s in m.states:
        if s.region < 0:
            raise ValueError(f'state {s.name} of {m.name} belongs to no region')


def compute_lib_ids(m: Machine):
    """State ids as documented, per back-end family.
    back / back11 (internals.adoc, 'Generated state ids'): Start column top-down; transition-less
    initial states and explicit_creation states 'are added as a source at the end of the transition
    table'; then the Next column top-down.
    backmp11 (comment above generate_state_set_impl): sources, targets, then the initial states and the
    explicit_creation states not mentioned in the table.
    The two rules differ only for machines with target-only states declared before implicit ones."""
    def number(rule):
        order = []

        def add(n):
            if n not in order:
                order.append(n)
        for r in m.rows:
            add(row_src_state(m, r))
        if rule == 'back':
            for n in m.initial:
                add(n)
            for n in m.explicit_creation:
                add(n)
        for r in m.rows:
            t = row_tgt_state(m, r)
            if t is not None:
                add(t)
        for n in m.initial:
            add(n)
        for n in m.explicit_creation:
            add(n)
        return order
    in_table = set()
    for r in m.rows:
        in_table.add(row_src_state(m, r))
        if row_tgt_state(m, r) is not None:
            in_table.add(row_tgt_state(m, r))
    for n in m.explicit_creation:
        if n in in_table:
            raise ValueError(f'{m.name}: explicit_creation state {n} also appears in the table (kept out of the zoo)')
    m.lib_order = {'back': number('back'), 'mp11': number('mp11')}
    for s in m.states:
        if s.name not in m.lib_order['back']:
            raise ValueError(f'state {s.name} of {m.name} not reachable by the numbering rule; '
                             f'list it in explicit_creation')
    m.lib_ids = {fam: {n: i for i, n in enumerate(o)} for fam, o in m.lib_order.items()}
    set_family(m, 'back')


def set_family(m: Machine, fam: str):
    for s in m.states:
        s.lib_id = m.lib_ids[fam][s.name]


def variant_for(z: Zoo, cfg: str) -> str:
    """back11 rejects some declarations at compile time (loud errors, not semantic questions):
    a machine-local internal_transition_table (process_fsm_internal_table passes a const event to a
    non-const cell) and a row with both action and guard whose event arrives as a const reference
    (exit point forwarding).  It gets the description without them."""
    if cfg == 'b11':
        strip = any(m.irows for m in z.machines())
        exitrows = any(isinstance(r.src, tuple) and r.a and r.g for m in z.machines() for r in m.rows)
        if strip or exitrows:
            return 'b11v'
    return 'full'


def make_variant(z: Zoo, variant: str) -> Zoo:
    if variant == 'full':
        return z
    import copy
    z2 = copy.deepcopy(z)
    for m in z2.machines():
        m.irows = []
        for r in m.rows:
            if isinstance(r.src, tuple) and r.a and r.g:
                r.a = False
                r.aid = -1
    z2.finalize()
    z2.variant = variant
    return z2


def for_family(z: Zoo, cfg: str) -> Zoo:
    """a private copy of the (variant) description whose lib_id fields follow the family of cfg"""
    import copy
    z2 = copy.deepcopy(make_variant(z, variant_for(z, cfg)))
    fam = 'mp11' if cfg in ('m', 'mf', 'mc') else 'back'
    for m in z2.machines():
        set_family(m, fam)
    z2.family = fam
    return z2
