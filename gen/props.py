"""Per-property slices: which machines, configurations, alphabet and bounds are explored and which
oracle judges the executions.  quick = on every change; thorough = as deep as built."""
import zoo as zoomod

ALL = ['b', 'bc', 'bq', 'b11', 'm', 'mf', 'mc']


def pe_all(zname):
    z = zoomod.ZOO[zname]
    return ['start', 'stop'] + [f'pe:{i + 1}' for i in range(len(z.events))]


def S(zname, cfgs=None, ops=None, **kw):
    d = dict(zoo=zname, cfgs=cfgs or zoomod.ZOO[zname].configs, ops=ops or pe_all(zname))
    d.update(kw)
    return d


PROPS = {
    'C01': dict(
        level='model_checking', design_ref='5/C01', oracle='C01',
        technique='explicit-state exploration of the real back-ends (BFS over events, DFS over guard valuations) + reference-model conformance',
        quick=[S('flat'), S('hier2')],
        thorough=[S('flat'), S('hier2')],
        rule='every reachable active configuration x every event type x every valuation of the guards consulted; '
             'an execution is non-trivial when at least one guard or action ran',
    ),
    'C02': dict(
        level='model_checking', design_ref='5/C02', oracle='C02',
        technique='explicit-state exploration of the real back-ends + reference-model conformance on the exit/action/entry order',
        quick=[S('flat'), S('hier2')],
        thorough=[S('flat'), S('hier2')],
        rule='every edge of the state graph from every reachable configuration under every guard valuation; '
             'non-trivial when an exit, action or entry ran',
    ),
    'C06': dict(
        level='model_checking', design_ref='5/C06', oracle='C06',
        technique='explicit-state exploration of the real back-ends + reference-model conformance on per-region order, result code and no_transition',
        quick=[S('flat'), S('hier2')],
        thorough=[S('flat'), S('hier2')],
        rule='every reachable configuration x event x guard valuation, calls from quiescent non-blocked machines; '
             'non-trivial when a guard, action or no_transition ran',
    ),
    'C07': dict(
        level='model_checking', design_ref='5/C07', oracle='C07',
        technique='explicit-state exploration of the real back-ends + reference-model conformance on bubbling and cascades',
        quick=[S('hier2')],
        thorough=[S('hier2')],
        rule='every reachable configuration of the nested machines x event x guard valuation; non-trivial when any callback ran',
    ),
}
