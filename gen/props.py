"""Per-property slices: which machines, configurations, alphabet and bounds are explored and which
oracle judges the executions.  quick = on every change; thorough = as deep as built."""
import zoo as zoomod

ALL = ['b', 'bc', 'bq', 'b11', 'm', 'mf', 'mc']


def pe_all(zname):
    z = zoomod.ZOO[zname]
    return ['start', 'stop'] + [f'pe:{i + 1}' for i in range(len(z.events))]


def S(zname, cfgs=None, ops=None, **kw):
    d = dict(zoo=zname, cfgs=cfgs or zoomod.ZOO[zname].configs, ops=ops or pe_all(zname))
    d.update(kw)
    return d


PROPS = {
    'C01': dict(
        level='model_checking', design_ref='5/C01', oracle='C01',
        technique='explicit-state exploration of the real back-ends (BFS over events, DFS over guard valuations) + reference-model conformance',
        quick=[S('flat'), S('hier2'), S('ortho'), S('hier3'), S('hier4'), S('wide', cfgs=['b', 'bc', 'b11', 'm', 'mc'])],
        thorough=[S('flat'), S('hier2'), S('ortho'), S('hier3'), S('hier4'), S('entry'), S('histS'), S('wide')],
        rule='every reachable active configuration x every event type x every valuation of the guards consulted; '
             'an execution is non-trivial when at least one guard or action ran',
    ),
    'C02': dict(
        level='model_checking', design_ref='5/C02', oracle='C02',
        technique='explicit-state exploration of the real back-ends + reference-model conformance on the exit/action/entry order',
        quick=[S('flat'), S('hier2'), S('hier3'), S('entry'), S('twosub'), S('histS', cfgs=['b', 'bc', 'b11', 'm'])],
        thorough=[S('flat'), S('hier2'), S('hier3'), S('entry'), S('histN'), S('histA'), S('histS'), S('ortho'), S('wide'), S('twosub')],
        rule='every edge of the state graph from every reachable configuration under every guard valuation; '
             'non-trivial when an exit, action or entry ran',
    ),
    'C06': dict(
        level='model_checking', design_ref='5/C06', oracle='C06',
        technique='explicit-state exploration of the real back-ends + reference-model conformance on per-region order, result code and no_transition',
        quick=[S('flat'), S('ortho'), S('hier2'), S('hier3'), S('hier4'), S('wide', cfgs=['b', 'bc', 'b11', 'm', 'mc'])],
        thorough=[S('flat'), S('ortho'), S('hier2'), S('hier3'), S('hier4'), S('entry'), S('wide')],
        rule='every reachable configuration x event x guard valuation, calls from quiescent non-blocked machines; '
             'non-trivial when a guard, action or no_transition ran',
    ),
    'C07': dict(
        level='model_checking', design_ref='5/C07', oracle='C07',
        technique='explicit-state exploration of the real back-ends + reference-model conformance on bubbling and cascades',
        quick=[S('hier2'), S('hier3'), S('hier4'), S('entry'), S('twosub')],
        thorough=[S('hier2'), S('hier3'), S('hier4'), S('entry'), S('histA'), S('wide'), S('twosub')],
        rule='every reachable configuration of the nested machines x event x guard valuation; non-trivial when any callback ran',
    ),
    'C03': dict(
        level='model_checking', design_ref='5/C03', oracle='C03',
        technique='explicit-state exploration of start/stop/process_event/enqueue histories; entry/exit ledger vs every introspection API at every quiescent state',
        quick=[S(z, ops=pe_all(z) + ['eq:1', 'xq'], introspect=True) for z in ('ortho', 'hier2', 'hier3', 'entry', 'histS')] +
              [S('orthoA', cfgs=['b', 'b11', 'm', 'mc'], introspect=True),      # a root machine with a history policy: stop / start again
               S('hier4', cfgs=['b', 'm', 'mf'], introspect=True)],              # four machine levels: is_state_active asked on the root (own-m01)
        thorough=[S(z, ops=pe_all(z) + ['eq:1', 'eq:2', 'xq', 'xs'], introspect=True) for z in ('ortho', 'hier2', 'hier3', 'entry', 'histN', 'histA', 'histS', 'flat')] +
                 [S('block', ops=pe_all('block') + ['eq:4', 'xq'], introspect=True), S('compl', ops=pe_all('compl') + ['eq:4', 'xq'], introspect=True),
                  S('orthoA', introspect=True), S('orthoS', introspect=True), S('wide', introspect=True), S('hier4', introspect=True)],
        rule='all histories over start/stop/process_event/enqueue_event/execute_queued_events to closure (pending queue <= 2); '
             'every distinct canonical state is a quiescent point checked against the ledger; non-trivial executions ran a callback',
    ),
    'C08': dict(
        level='model_checking', design_ref='5/C08', oracle='C08',
        technique='explicit-state exploration of enter/move/leave histories under the three history policies + reference-model conformance',
        quick=[S('histN'), S('histA'), S('histS')],
        thorough=[S('histN'), S('histA'), S('histS')],
        rule='all histories over plain entry, history-event entry, explicit entry, fork, per-region moves and leave, to closure; '
             'non-trivial when an entry behaviour ran',
    ),
    'C09': dict(
        level='model_checking', design_ref='5/C09', oracle='C09',
        technique='explicit-state exploration of direct/fork/entry-point/exit-point rows incl. the exit event sent from outside + reference-model conformance',
        quick=[S('entry'), S('histS', cfgs=['b', 'bc', 'b11', 'm'])],
        thorough=[S('entry'), S('histS'), S('histA'), S('histN'),
                  # exit points on a submachine WITH history (back family: backmp11 does not re-fire a restored exit point, see DESIGN 11.6)
                  S('entryA', cfgs=['b', 'bc', 'bq', 'b11']), S('entryS', cfgs=['b', 'bc', 'bq', 'b11'])],
        rule='every reachable configuration of the submachine x every event (incl. the exit point event from outside) x guard valuations',
    ),
    'C04': dict(
        level='model_checking', design_ref='5/C04', oracle='C04',
        technique='explicit-state exploration with nested submissions at every callback position (budgeted deviations) + re-entrancy monitor + reference-model conformance',
        quick=[S('flat', ops=['start', 'pe:1', 'pe:2', 'pe:4', 'eq:3', 'xq', 'xs'], submits=1, guards=1, qbound=2),
               S('hier2', ops=['start', 'pe:1', 'pe:3', 'eq:1', 'xq'], submits=1, guards=1, qbound=2),
               S('hier2', ops=['start', 'pe:1', 'pe:2'], submits=1, guards=2, qbound=1, cfgs=['b', 'b11', 'm', 'mc']),
               S('flat', ops=['start', 'pe:1', 'pe:2', 'pe:3', 'pe:4'], submits=1, guards=1, qbound=2, submit_in_nt=True),
               # single step / drain on a machine whose table has completion rows (the step that handles an event is
               # followed by completion processing, which must not drag the rest of the queue along)
               S('compl', ops=['start', 'pe:1', 'pe:2', 'pe:3', 'eq:4', 'eq:1', 'xs', 'xq'], qbound=2),
               # a behaviour throws and exception_caught submits an event: it must be stored like any other nested submission
               S('flat', ops=['start', 'pe:1', 'pe:2', 'pe:4'], faults=1, fault_ops=1, submits=1, guards=1, qbound=2)],
        thorough=[S('flat', ops=['start', 'pe:1', 'pe:2', 'pe:3', 'pe:4', 'eq:1', 'eq:3', 'xq', 'xs'], submits=2, guards=1, qbound=2),
                  S('hier2', ops=['start', 'pe:1', 'pe:2', 'pe:3', 'pe:4', 'eq:1', 'xq', 'xs'], submits=1, guards=2, qbound=2),
                  S('ortho', ops=['start', 'pe:1', 'pe:2', 'pe:3', 'eq:1', 'xq', 'xs'], submits=2, guards=1, qbound=2),
                  S('hier3', ops=['start', 'pe:1', 'pe:2', 'pe:4', 'eq:2', 'xq'], submits=1, guards=1, qbound=2),
                  S('hier2', ops=['start', 'pe:1', 'pe:2', 'pe:3', 'pe:4'], submits=1, guards=1, qbound=2, submit_in_nt=True),
                  S('ortho', ops=['start', 'pe:1', 'pe:2', 'pe:3', 'pe:4'], submits=1, guards=1, qbound=2, submit_in_nt=True),
                  # three nested submissions in one history
                  S('flat', ops=['start', 'pe:1', 'pe:2', 'pe:4', 'eq:3', 'xq'], submits=3, guards=1, qbound=3),
                  S('hier2', ops=['start', 'pe:1', 'pe:2'], submits=3, guards=0, qbound=3)],
        rule='every reachable configuration x every event x up to N nested submissions (N = 1 quick, 1-3 thorough; process_event / enqueue_event, local Fsm or root) '
             'placed at any guard/exit/action/entry/exception_caught/no_transition position, during event processing and during start(), interleaved with '
             'driver-level enqueue_event / execute_queued_events / execute_single_queued_event; non-trivial when a nested submission happened',
    ),
    'C10': dict(
        level='model_checking', design_ref='5/C10', oracle='C10',
        technique='explicit-state exploration of completion chains with queued/deferred events pending + completion-first monitor + reference-model conformance',
        quick=[S('compl', ops=['start', 'stop', 'pe:1', 'pe:2', 'pe:3', 'pe:4', 'eq:4', 'eq:1', 'xq', 'xs'], qbound=2),
               S('compl', ops=['start', 'pe:1', 'pe:2', 'pe:3', 'pe:4', 'eq:1'], qbound=2, submits=1, guards=2)],
        thorough=[S('compl', ops=['start', 'stop', 'pe:1', 'pe:2', 'pe:3', 'pe:4', 'eq:4', 'eq:1', 'eq:2', 'xq', 'xs'], qbound=3),
                  S('compl', ops=['start', 'pe:1', 'pe:2', 'pe:3', 'pe:4', 'eq:1'], qbound=2, submits=2, guards=3)],
        rule='all histories over the events of the completion machine with 0-2 queued and deferred events pending, completion guards fixed per entry of '
             'their source state, to closure; non-trivial when a completion row was tried',
    ),
    'C11': dict(
        level='model_checking', design_ref='5/C11', oracle='C11',
        technique='explicit-state exploration of terminate/interrupt states with pending queued and deferred events + blocking monitor + reference-model conformance',
        quick=[S('block', ops=['start', 'stop', 'pe:1', 'pe:2', 'pe:3', 'pe:4', 'pe:5', 'pe:6', 'eq:4', 'eq:1', 'eq:5', 'xq'], qbound=2)],
        thorough=[S('block', ops=['start', 'stop', 'pe:1', 'pe:2', 'pe:3', 'pe:4', 'pe:5', 'pe:6', 'eq:4', 'eq:1', 'eq:5', 'xq', 'xs'], qbound=3),
                  S('block', ops=['start', 'pe:1', 'pe:2', 'pe:3', 'pe:4', 'pe:5', 'pe:6'], qbound=2, submits=1, guards=1)],
        rule='all histories over every event (incl. both end-interrupt events) with queued and deferred events pending when the blocking state is '
             'entered, to closure; non-trivial when the machine was blocked at the time of the call',
    ),
    'C05': dict(
        level='model_checking', design_ref='5/C05', oracle='C05',
        technique='explicit-state exploration of deferring configurations (state property and Defer action) + deferral ledger + reference-model conformance',
        quick=[S('defer', ops=['start', 'pe:1', 'pe:2', 'pe:3', 'pe:4', 'pe:5', 'eq:3', 'xq'], qbound=3),
               S('block', ops=['start', 'pe:1', 'pe:2', 'pe:3', 'pe:4', 'pe:5', 'pe:6'], qbound=2),
               S('defer2', qbound=3),
               S('deferhN', qbound=2), S('deferhA', qbound=2), S('deferhS', qbound=2),
               # reachable states next to the wrap of back's deferral sequence counter (a char): 126 handled events first
               S('defer', cfgs=['b', 'bq', 'b11'], ops=['start', 'pe:1', 'pe:2', 'pe:3', 'pe:5'], qbound=4, warm='126:5'),
               S('defer', cfgs=['bc'], ops=['start', 'pe:1', 'pe:2', 'pe:3', 'pe:5'], qbound=4, warm='125:5')],
        thorough=[S('defer', ops=['start', 'stop', 'pe:1', 'pe:2', 'pe:3', 'pe:4', 'pe:5', 'eq:3', 'eq:1', 'xq', 'xs'], qbound=4),
                  S('defer', ops=['start', 'pe:1', 'pe:2', 'pe:3', 'pe:4', 'pe:5'], qbound=3, submits=1),
                  S('block', ops=['start', 'pe:1', 'pe:2', 'pe:3', 'pe:4', 'pe:5', 'pe:6', 'eq:4', 'xq'], qbound=3),
                  S('defer2', ops=pe_all('defer2') + ['eq:1', 'xq'], qbound=4),
                  S('defer', cfgs=['b', 'bc', 'bq', 'b11'], ops=['start', 'pe:1', 'pe:2', 'pe:3', 'pe:4', 'pe:5'], qbound=4, warm='124:5'),
                  S('defer', cfgs=['b', 'bc', 'bq', 'b11'], ops=['start', 'pe:1', 'pe:2', 'pe:3', 'pe:4', 'pe:5'], qbound=4, warm='125:5'),
                  S('defer', cfgs=['b', 'bc', 'bq', 'b11'], ops=['start', 'pe:1', 'pe:2', 'pe:3', 'pe:4', 'pe:5'], qbound=4, warm='126:5'),
                  S('defer', cfgs=['b', 'bc', 'bq', 'b11'], ops=['start', 'pe:1', 'pe:2', 'pe:3', 'pe:4', 'pe:5'], qbound=4, warm='127:5'),
                  S('defer', cfgs=['m', 'mc'], ops=['start', 'pe:1', 'pe:2', 'pe:3', 'pe:5'], qbound=3, warm='65533:5', max_exec=400),
                  S('defer', cfgs=['m', 'mf'], ops=['start', 'pe:1', 'pe:2', 'pe:3', 'pe:5'], qbound=3, warm='65534:5', max_exec=400),
                  S('deferhN', ops=pe_all('deferhN') + ['eq:1', 'xq'], qbound=3), S('deferhA', ops=pe_all('deferhA') + ['eq:1', 'xq'], qbound=3),
                  S('deferhS', ops=pe_all('deferhS') + ['eq:1', 'xq'], qbound=3)],
        rule='all histories over two deferred event types, state-changing events, a handled no-op event and enqueue_event with at most 3 deferred '
             'events pending, Defer-row guards as choice points, to closure; non-trivial when an event was deferred or re-offered',
    ),
    'C12': dict(
        level='fault_enumeration', design_ref='5/C12', oracle='C12',
        technique='exhaustive fault enumeration: every callback position of every reachable step as throw point on the real back-ends, '
                  'continuations to closure, reference-model conformance + two-build (zero/pattern auto-init) differential for indeterminate values',
        quick=[S('flat', faults=1, fault_ops=1, twobuild=True),
               S('hier2', faults=1, fault_ops=1, twobuild=True),
               S('compl', ops=['start', 'pe:1', 'pe:2', 'pe:3', 'pe:4', 'eq:4', 'xq'], faults=1, fault_ops=1, qbound=1, twobuild=True),
               S('sw_after_action', cfgs=['b', 'bc', 'b11', 'm'], faults=1, fault_ops=1),
               S('sw_after_exit', cfgs=['b', 'b11', 'mf'], faults=1, fault_ops=1),
               S('sw_before', cfgs=['bq', 'b11', 'mc'], faults=1, fault_ops=1)],
        thorough=[S('flat', faults=2, fault_ops=2, twobuild=True),
                  S('sw_after_action', faults=1, fault_ops=1), S('sw_after_exit', faults=1, fault_ops=1), S('sw_before', faults=1, fault_ops=1),
                  S('hier2', faults=1, fault_ops=2, twobuild=True),
                  S('hier2', cfgs=['b', 'bc', 'b11', 'm', 'mc'], ops=['start', 'pe:1', 'eq:1', 'xq'], faults=1, fault_ops=1, submits=1, guards=1, qbound=1),
                  S('compl', ops=['start', 'pe:1', 'pe:2', 'pe:3', 'pe:4', 'eq:4', 'eq:1', 'xq'], faults=1, fault_ops=2, qbound=2, twobuild=True),
                  S('defer', ops=['start', 'pe:1', 'pe:2', 'pe:3', 'pe:4', 'pe:5'], faults=1, fault_ops=1, qbound=2, twobuild=True),
                  S('entry', faults=1, fault_ops=1, twobuild=True)],
        rule='every reachable configuration x event x every guard/exit/action/entry position of the resulting step (incl. completion rows and behaviours run for '
             'queued events, submachine levels) as the throw point, one faulty operation per history (quick) / two (thorough), every continuation to closure; '
             'non-trivial when a fault was injected or follows one',
    ),
    'C13': dict(
        level='model_checking', design_ref='5/C13', custom='lockstep', oracle=None, engine='lockstep',
        technique='lock-step exploration of the product of all seven back-end configurations under identical operations and environment answers; equality of normalised observations',
        quick=[dict(zoo=z, cfgs=ALL, ops=pe_all(z), compare_ids=True) for z in ('flat_c', 'hier2_c', 'ortho_c', 'entry_c', 'histS')] +
              [dict(zoo='twosub', cfgs=ALL, ops=pe_all('twosub'), act_in_trace=True)] +
              [dict(zoo='compl', cfgs=ALL, ops=['start', 'pe:1', 'pe:2', 'pe:3', 'pe:4', 'eq:4', 'xq'], qbound=2),
               dict(zoo='defer_c', cfgs=ALL, ops=['start', 'pe:1', 'pe:2', 'pe:3', 'pe:4', 'pe:5'], qbound=2),
               dict(zoo='hier2_c', cfgs=['b', 'bc', 'b11', 'm', 'mf'], ops=['start', 'pe:1', 'eq:1', 'xq'], submits=1, guards=1, qbound=2)] +
              # non-default active-state-switch policies: the ids reported inside every behaviour are compared too
              [dict(zoo='sw_' + p, cfgs=ALL, ops=pe_all('sw_' + p), act_in_trace=True) for p in ('after_exit', 'before')] +
              # the full machines (machine-level internal tables, action+guard rows on exit points), which back11 rejects at
              # compile time: the other six configurations
              [dict(zoo=z, cfgs=['b', 'bc', 'bq', 'm', 'mf', 'mc'], ops=pe_all(z), act_in_trace=True) for z in ('flat', 'ortho', 'hier2')],
        thorough=[dict(zoo=z, cfgs=ALL, ops=pe_all(z) + ['eq:1', 'xq'], compare_ids=True) for z in ('flat_c', 'hier2_c', 'ortho_c', 'entry_c', 'histN', 'histA', 'histS', 'hier3_c')] +
                 [dict(zoo='compl', cfgs=ALL, ops=['start', 'stop', 'pe:1', 'pe:2', 'pe:3', 'pe:4', 'eq:4', 'eq:1', 'xq', 'xs'], qbound=2),
                  dict(zoo='defer_c', cfgs=ALL, ops=['start', 'pe:1', 'pe:2', 'pe:3', 'pe:4', 'pe:5', 'eq:3', 'xq'], qbound=3),
                  dict(zoo='block', cfgs=ALL, ops=['start', 'pe:1', 'pe:2', 'pe:3', 'pe:4', 'pe:5', 'pe:6', 'eq:4', 'xq'], qbound=2),
                  dict(zoo='hier2_c', cfgs=ALL, ops=['start', 'pe:1', 'pe:2', 'pe:3', 'eq:1', 'xq'], submits=1, guards=2, qbound=2),
                  dict(zoo='flat_c', cfgs=ALL, ops=['start', 'pe:1', 'pe:2', 'pe:4', 'eq:3', 'xq', 'xs'], submits=2, guards=1, qbound=2)] +
                 [dict(zoo='sw_' + p, cfgs=ALL, ops=pe_all('sw_' + p) + ['eq:1', 'xq'], act_in_trace=True) for p in ('after_exit', 'before', 'after_action', 'after_entry')] +
                 [dict(zoo=z, cfgs=['b', 'bc', 'bq', 'm', 'mf', 'mc'], ops=pe_all(z) + ['eq:1', 'xq'], act_in_trace=True) for z in ('flat', 'ortho', 'hier2', 'entry', 'hier3', 'hier4')] +
                 [dict(zoo='wide', cfgs=ALL, ops=pe_all('wide'), act_in_trace=True, compare_ids=True)],
        rule='product exploration of b, bc, bq, b11, m, mf, mc on machines of the common feature subset: every reachable product state x event x '
             'guard valuation (x one nested submission); an execution is non-trivial when a callback ran',
    ),
    'C17': dict(
        level='model_checking', design_ref='5/C17', oracle='C17',
        technique='explicit-state exploration; at every distinct (state, introspection answer) pair the flag answers (default/OR and AND) are recomputed from the active configuration; '
                  'flags read inside every behaviour compared with the policy-defined configuration of the reference model',
        quick=[S('flags', introspect=True, observe_flags=True), S('block', introspect=True, observe_flags=True), S('flags3', introspect=True, observe_flags=True),
               S('flags_before', cfgs=['b', 'b11', 'm', 'mc'], introspect=True, observe_flags=True),
               S('flags_after_exit', cfgs=['b', 'm'], introspect=True, observe_flags=True),
               S('flags4', cfgs=['b', 'b11', 'm', 'mf'], introspect=True)],
        thorough=[S('flags', introspect=True, observe_flags=True), S('block', introspect=True, observe_flags=True), S('flags3', introspect=True, observe_flags=True)] +
                 [S('flags_' + p, introspect=True, observe_flags=True) for p in ('before', 'after_exit', 'after_action', 'after_entry')] +
                 [S('hier2', introspect=True), S('flags4', introspect=True, observe_flags=True)],
        rule='every reachable configuration x every flag x {default, OR, AND}; the introspection answers are part of the state identity so a path-dependent answer '
             'creates a second state instead of hiding; inside behaviours: every callback position under the switch policies',
    ),
    'C18': dict(
        level='model_checking', design_ref='5/C18', oracle='C18',
        technique='explicit-state exploration of exact / base-class / Kleene triggers incl. queued and deferred delivery + reference-model conformance + payload checks',
        quick=[S(z, ops=['start', 'stop', 'pe:1', 'pe:2', 'pe:3', 'pe:4', 'pe:5', 'eq:3', 'eq:2', 'xq'], qbound=2) for z in ('evt', 'evt_u')],
        thorough=[S(z, ops=['start', 'stop', 'pe:1', 'pe:2', 'pe:3', 'pe:4', 'pe:5', 'eq:1', 'eq:3', 'eq:2', 'xq', 'xs'], qbound=3) for z in ('evt', 'evt_u')],
        rule='every configuration x every event type of the hierarchy (payload = serial-derived checksum, verified at every callback) x guard valuations, '
             'delivered directly, from the queue and after deferral; Kleene type boost::any / std::any (evt) and a user-declared one (evt_u); back (deque and circular queues) and backmp11 flat_fold (back11 rejects the declarations at compile time)',
    ),
    'C19': dict(
        level='model_checking', design_ref='5/C19', oracle='C19',
        technique='explicit-state exploration of the same machine under the four active-state-switch policies; ids reported inside every behaviour compared with the policy table of the reference model',
        quick=[S('sw_' + p) for p in ('after_entry', 'after_exit', 'after_action', 'before')],
        thorough=[S('sw_' + p) for p in ('after_entry', 'after_exit', 'after_action', 'before')] +
                 [S('flags_' + p) for p in ('after_exit', 'before')],
        lockstep_quick=[dict(zoo='sw_after_entry', peers=[('sw_' + p, c) for p in ('after_entry', 'after_exit', 'after_action', 'before')], ops=pe_all('sw_before'))
                        for c in ('b', 'm')],
        lockstep_thorough=[dict(zoo='sw_after_entry', peers=[('sw_' + p, c) for p in ('after_entry', 'after_exit', 'after_action', 'before')], ops=pe_all('sw_before') + ['eq:1', 'xq'])
                           for c in ('b', 'bc', 'b11', 'm', 'mf', 'mc')],
        rule='each of the four policies x every external transition (into/out of the submachine, inside orthogonal regions) from every reachable configuration x guard valuations, '
             'observed from every guard / exit / action / entry position',
    ),
    'C15': dict(
        level='model_checking', design_ref='5/C15', custom='copy', oracle=None, engine='copy-differential',
        technique='exhaustive enumeration of copy points x copy/move operation x interleaved continuation pairs on the real back-ends; differential against the original rebuilt by replay; callbacks attributed to machine objects by address',
        quick=[dict(zoo='entry', cfgs=ALL, pre_ops=['start', 'pe:1', 'pe:2', 'pe:4', 'pe:5', 'pe:7', 'eq:5', 'eq:1'], cont_ops=['pe:1', 'pe:5', 'pe:6', 'xq'], cont_len=2, qbound=1, guards=1),
               dict(zoo='defer', cfgs=ALL, pre_ops=['start', 'pe:1', 'pe:3', 'eq:3'], cont_ops=['pe:3', 'pe:1', 'xq'], cont_len=2, qbound=1, guards=0),
               dict(zoo='histS', cfgs=['b', 'b11', 'm', 'mc'], pre_ops=['start', 'pe:1', 'pe:3', 'pe:4', 'pe:6'], cont_ops=['pe:2', 'pe:3', 'pe:9'], cont_len=2, qbound=1, guards=0)],
        thorough=[dict(zoo='entry', cfgs=ALL, pre_ops=['start', 'pe:1', 'pe:2', 'pe:3', 'pe:4', 'pe:5', 'pe:7', 'eq:5', 'eq:1', 'eq:6'], cont_ops=['pe:1', 'pe:5', 'pe:6', 'pe:7', 'eq:5', 'xq'], cont_len=3, qbound=2, guards=1),
                  dict(zoo='defer', cfgs=ALL, pre_ops=['start', 'pe:1', 'pe:2', 'pe:3', 'eq:3', 'eq:1'], cont_ops=['pe:3', 'pe:1', 'pe:4', 'xq', 'xs'], cont_len=3, qbound=2, guards=1),
                  dict(zoo='histS', cfgs=ALL, pre_ops=['start', 'pe:1', 'pe:3', 'pe:4', 'pe:5', 'pe:6'], cont_ops=['pe:2', 'pe:3', 'pe:9', 'pe:8'], cont_len=3, qbound=1, guards=1),
                  dict(zoo='hier2', cfgs=ALL, pre_ops=['start', 'pe:1', 'pe:3', 'eq:1'], cont_ops=['pe:1', 'pe:2', 'xq'], cont_len=2, qbound=1, guards=1)],
        rule='every reachable configuration (with queued / deferred events pending) as copy point x {copy-construct from const&, copy-assign, backmp11: move-construct, move-assign} x '
             'every interleaving of continuation operations on original and copy up to the stated length x guard answers; non-trivial = a continuation step',
    ),
    'C16': dict(
        level='model_checking', design_ref='5/C16', custom='copy', oracle=None, engine='copy-differential',
        technique='exhaustive enumeration of save points x archive format x continuations on back/back11; differential against the original rebuilt by replay; do_serialize data compared state by state',
        quick=[dict(zoo='histS', cfgs=['b', 'bc', 'b11'], serialize=True, pre_ops=['start', 'pe:1', 'pe:3', 'pe:4', 'pe:5', 'pe:6', 'pe:8'], cont_ops=['pe:2', 'pe:3', 'pe:9', 'pe:4'], cont_len=2, qbound=1, guards=1),
               dict(zoo='histA', cfgs=['b', 'b11'], serialize=True, pre_ops=['start', 'pe:1', 'pe:3', 'pe:4', 'pe:5', 'pe:6', 'pe:8'], cont_ops=['pe:2', 'pe:3', 'pe:9', 'pe:4'], cont_len=2, qbound=1, guards=1),
               dict(zoo='histN', cfgs=['b', 'bq'], serialize=True, pre_ops=['start', 'pe:1', 'pe:3', 'pe:4', 'pe:5', 'pe:6', 'pe:8'], cont_ops=['pe:2', 'pe:3', 'pe:9', 'pe:4'], cont_len=2, qbound=1, guards=1),
               dict(zoo='entry', cfgs=['b', 'b11'], serialize=True, pre_ops=['start', 'pe:1', 'pe:2', 'pe:4', 'pe:5', 'pe:7'], cont_ops=['pe:1', 'pe:5', 'pe:6'], cont_len=2, qbound=1, guards=1),
               dict(zoo='hier2', cfgs=['b', 'bq'], serialize=True, pre_ops=['start', 'pe:1', 'pe:2', 'pe:3'], cont_ops=['pe:1', 'pe:2', 'pe:3'], cont_len=2, qbound=1, guards=1)],
        thorough=[dict(zoo=z, cfgs=['b', 'bc', 'bq', 'b11'], serialize=True, pre_ops=pe_all(z)[:1] + pe_all(z)[2:], cont_ops=pe_all(z)[2:], cont_len=3, qbound=1, guards=1)
                  for z in ('histN', 'histA', 'histS', 'entry', 'hier2', 'ortho')],
        rule='every reachable configuration with empty queues as save point x {text, binary archive} x every continuation sequence up to the stated length x guard answers, '
             'on back (3 configurations) and back11; non-trivial = a continuation step on the loaded machine',
    ),
    'C20': dict(
        level='exploration', design_ref='5/C20', custom='storage', oracle=None, engine='storage',
        technique='exhaustive enumeration of all operation sequences up to depth k over the storage API for a zoo of event types, on the real back-ends under ASan/UBSan/LSan and, in a second pass, MemorySanitizer, with a construction/destruction ledger',
        depth={'quick': 4, 'thorough': 5},
        rule='all sequences of exactly k operations over {enqueue_event (the type under test, a second tracked type of the other storage class handled where the first is deferred, an empty event), process_event (handled / deferred by state / deferred by action), submit from an action, state changes incl. entering a '
             'no-history submachine (pool reset), drain, single step, copy-construct, copy-assign, move-construct, move-assign, clear, stop} followed by destruction with events pending, '
             'for every event type of the zoo, on backmp11 (default and favor_compile_time), back (deque and circular queues) and back11',
        level_note='Trusted: the ledger and checksum code in storage/storage.cpp, clang 14 sanitizers. Not covered: event types outside the zoo, sequences longer than k.',
        level_text='Every sequence of k storage-relevant operations is executed for each event type of a zoo spanning sizes 1-512, alignments 1-64 and trivial / non-trivial / throwing-move / self-referential '
                   'classes; every dispatched object is compared with the submitted one (bytes, self pointer, alignment), every tracked object must be destroyed exactly once at the address it was constructed at, '
                   'and the sanitizers report reads of freed, out-of-bounds, leaked or (MemorySanitizer pass) uninitialised memory.',
    ),
    'C14': dict(
        level='model_checking', design_ref='5/C14', custom='frontends', oracle=None, engine='lockstep+tokenizer',
        technique='lock-step exploration of one machine written in five front-end syntaxes (all events x all guard-atom valuations) + exhaustive run-time enumeration of the PlantUML line grammar through the real tokenizer + compile-time batch of guard expression trees',
        lockstep_quick=[dict(zoo='fe_functor', peers=[('fe_' + f, c) for f in ('functor', 'basic', 'basic2', 'puml') + (('euml',) if c in ('b', 'bc', 'bq', 'b11') else ())],
                             ops=pe_all('fe_functor'), act_in_trace=True)
                        for c in ('b', 'b11', 'm')],
        lockstep_thorough=[dict(zoo='fe_functor', peers=[('fe_' + f, c) for f in ('functor', 'basic', 'basic2', 'puml') + (('euml',) if c in ('b', 'bc', 'bq', 'b11') else ())],
                                ops=pe_all('fe_functor') + ['eq:1', 'xq'], act_in_trace=True)
                           for c in ('b', 'bc', 'bq', 'b11', 'm', 'mf', 'mc')],
        tokenizer={'quick': (2, 3), 'thorough': (3, 4)},
        rule='(a) product of the functor / basic / row2 / PlantUML / eUML-table versions of one machine (eUML on back and back11 only, backmp11 does not support it): every reachable state x event x valuation of the three guard atoms, atom evaluation order and action order in the trace; '
             '(b) every transition line of the documented grammar: 2 sources x 2 targets x 1-4 dashes x {no event part, 3 events x internal or not} x 8 guard expressions x 0-3 actions x both part orders x all '
             'blank choices at 9 positions; every ordering of 3-4 distinct lines out of initial / transition / terminal / flag / entry / exit lines; (c) 338 guard expressions as types',
        level_note='Trusted: reference model not involved; the functor front-end is the pivot of the lock-step comparison and the member-function front-end evaluates the guard expressions in plain C++. '
                   'eUML is covered as a transition-table expression inside a functor front-end (BOOST_MSM_EUML_DECLARE_TRANSITION_TABLE), not as a complete eUML machine.',
        level_text='The same machine is instantiated from five front-end syntaxes and explored in lock-step on three to seven back-end configurations; the PlantUML tokenizer functions are run on every string of the '
                   'documented grammar up to the stated bounds and on every small document ordering; guard expressions are compared as types with the C++-precedence tree.',
    ),
}
