"""Per-property slices: which machines, configurations, alphabet and bounds are explored and which
oracle judges the executions.  quick = on every change; thorough = as deep as built."""
import zoo as zoomod

ALL = ['b', 'bc', 'bq', 'b11', 'm', 'mf', 'mc']


def pe_all(zname):
    z = zoomod.ZOO[zname]
    return ['start', 'stop'] + [f'pe:{i + 1}' for i in range(len(z.events))]


def S(zname, cfgs=None, ops=None, **kw):
    d = dict(zoo=zname, cfgs=cfgs or zoomod.ZOO[zname].configs, ops=ops or pe_all(zname))
    d.update(kw)
    return d


PROPS = {
    'C01': dict(
        level='model_checking', design_ref='5/C01', oracle='C01',
        technique='explicit-state exploration of the real back-ends (BFS over events, DFS over guard valuations) + reference-model conformance',
        quick=[S('flat'), S('hier2'), S('ortho'), S('hier3')],
        thorough=[S('flat'), S('hier2'), S('ortho'), S('hier3'), S('entry'), S('histS')],
        rule='every reachable active configuration x every event type x every valuation of the guards consulted; '
             'an execution is non-trivial when at least one guard or action ran',
    ),
    'C02': dict(
        level='model_checking', design_ref='5/C02', oracle='C02',
        technique='explicit-state exploration of the real back-ends + reference-model conformance on the exit/action/entry order',
        quick=[S('flat'), S('hier2'), S('hier3'), S('entry')],
        thorough=[S('flat'), S('hier2'), S('hier3'), S('entry'), S('histN'), S('histA'), S('histS'), S('ortho')],
        rule='every edge of the state graph from every reachable configuration under every guard valuation; '
             'non-trivial when an exit, action or entry ran',
    ),
    'C06': dict(
        level='model_checking', design_ref='5/C06', oracle='C06',
        technique='explicit-state exploration of the real back-ends + reference-model conformance on per-region order, result code and no_transition',
        quick=[S('flat'), S('ortho'), S('hier2'), S('hier3')],
        thorough=[S('flat'), S('ortho'), S('hier2'), S('hier3'), S('entry')],
        rule='every reachable configuration x event x guard valuation, calls from quiescent non-blocked machines; '
             'non-trivial when a guard, action or no_transition ran',
    ),
    'C07': dict(
        level='model_checking', design_ref='5/C07', oracle='C07',
        technique='explicit-state exploration of the real back-ends + reference-model conformance on bubbling and cascades',
        quick=[S('hier2'), S('hier3'), S('entry')],
        thorough=[S('hier2'), S('hier3'), S('entry'), S('histA')],
        rule='every reachable configuration of the nested machines x event x guard valuation; non-trivial when any callback ran',
    ),
    'C03': dict(
        level='model_checking', design_ref='5/C03', oracle='C03',
        technique='explicit-state exploration of start/stop/process_event/enqueue histories; entry/exit ledger vs every introspection API at every quiescent state',
        quick=[S(z, ops=pe_all(z) + ['eq:1', 'xq'], introspect=True) for z in ('ortho', 'hier2', 'hier3', 'entry', 'histS')],
        thorough=[S(z, ops=pe_all(z) + ['eq:1', 'eq:2', 'xq', 'xs'], introspect=True) for z in ('ortho', 'hier2', 'hier3', 'entry', 'histN', 'histA', 'histS', 'flat')],
        rule='all histories over start/stop/process_event/enqueue_event/execute_queued_events to closure (pending queue <= 2); '
             'every distinct canonical state is a quiescent point checked against the ledger; non-trivial executions ran a callback',
    ),
    'C08': dict(
        level='model_checking', design_ref='5/C08', oracle='C08',
        technique='explicit-state exploration of enter/move/leave histories under the three history policies + reference-model conformance',
        quick=[S('histN'), S('histA'), S('histS')],
        thorough=[S('histN'), S('histA'), S('histS')],
        rule='all histories over plain entry, history-event entry, explicit entry, fork, per-region moves and leave, to closure; '
             'non-trivial when an entry behaviour ran',
    ),
    'C09': dict(
        level='model_checking', design_ref='5/C09', oracle='C09',
        technique='explicit-state exploration of direct/fork/entry-point/exit-point rows incl. the exit event sent from outside + reference-model conformance',
        quick=[S('entry')],
        thorough=[S('entry'), S('histS')],
        rule='every reachable configuration of the submachine x every event (incl. the exit point event from outside) x guard valuations',
    ),
}
