"""The machine zoo: structural descriptions only (the 'programs' quantifier).  Behaviour is run-time."""
from desc import *

ZOO = {}


def reg(z):
    ZOO[z.name] = z.finalize()
    return z


def S(name, **kw):
    return State(name, **kw)


def R(src, evt, tgt, a=True, g=True, **kw):
    return Row(src, evt, tgt, a, g, **kw)


def IR(evt, a=True, g=True, **kw):
    return IRow(evt, a, g, **kw)


# ------------------------------------------------------------------------------------------------
# flat: 1 region, conflicts mixing all row kinds, irows in the table, state-local and machine-local
# internal tables with conflicts
reg(Zoo(
    name='flat',
    events=['e1', 'e2', 'e3', 'e4'],
    root=Machine(
        'Flat',
        states=[S('A', irows=[IR('e2'), IR('e2')]), S('B'), S('C'), S('D')],
        initial=['A'],
        rows=[
            R('A', 'e1', 'B'),                 # row
            R('A', 'e1', 'C', g=False),        # a_row  (declared later: tried before the row above)
            R('A', 'e1', 'D', a=False),        # g_row
            R('A', 'e3', 'B', a=False, g=False),   # _row
            R('A', 'e3', None),                # internal row written in the table, tried first
            R('B', 'e1', 'A'),
            R('B', 'e2', 'C', a=False),
            R('B', 'e2', None),
            R('C', 'e1', 'A', a=False, g=False),
            R('C', 'e3', 'D'),
            R('D', 'e2', 'A'),
            R('D', 'e4', 'D'),                 # self transition
            R('D', 'e4', None, a=False),       # guard-only internal row in conflict with the self transition
        ],
        irows=[IR('e4'), IR('e4'), IR('e2')],
    ),
    menu=[('pe', 'e1', 'local'), ('eq', 'e2', 'local')],
))

# ------------------------------------------------------------------------------------------------
# hier2: root with 2 regions, one holds a submachine with 2 regions, its own internal table and a
# substate internal table; outer rows on Sub for the same events as inner rows
reg(Zoo(
    name='hier2',
    events=['e1', 'e2', 'e3', 'e4', 'e5'],
    root=Machine(
        'Root',
        states=[
            S('X'),
            S('Sub', kind='sub', sub=Machine(
                'Sub',
                states=[S('S1', irows=[IR('e3')]), S('S2'), S('T1'), S('T2', irows=[IR('e1')])],
                initial=['S1', 'T1'],
                rows=[
                    R('S1', 'e1', 'S2'),
                    R('S2', 'e1', 'S1'),
                    R('S2', 'e2', 'S1'),
                    R('T1', 'e1', 'T2'),
                    R('T2', 'e3', 'T1'),
                    R('T1', 'e4', 'T2', a=False),
                ],
                irows=[IR('e2'), IR('e5')],
            )),
            S('Y'), S('P'), S('Q'),
        ],
        initial=['X', 'P'],
        rows=[
            R('X', 'e1', 'Sub'),
            R('Sub', 'e1', 'X'),
            R('Sub', 'e2', 'Y'),
            R('Sub', 'e3', None),
            R('Y', 'e1', 'X', a=False, g=False),
            R('Y', 'e2', 'Sub', a=False),
            R('P', 'e1', 'Q'),
            R('Q', 'e1', 'P'),
            R('P', 'e3', 'Q', a=False),
            R('Q', 'e4', 'P', g=False),
        ],
        irows=[IR('e5')],
    ),
    menu=[('pe', 'e1', 'local'), ('eq', 'e2', 'local'), ('pe', 'e4', 'root')],
))
