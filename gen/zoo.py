"""The machine zoo: structural descriptions only (the 'programs' quantifier).  Behaviour is run-time."""
from desc import *

ZOO = {}


def reg(z):
    ZOO[z.name] = z.finalize()
    return z


def S(name, **kw):
    return State(name, **kw)


def R(src, evt, tgt, a=True, g=True, **kw):
    return Row(src, evt, tgt, a, g, **kw)


def IR(evt, a=True, g=True, **kw):
    return IRow(evt, a, g, **kw)


# ------------------------------------------------------------------------------------------------
# flat: 1 region, conflicts mixing all row kinds, irows in the table, state-local and machine-local
# internal tables with conflicts
reg(Zoo(
    name='flat',
    events=['e1', 'e2', 'e3', 'e4'],
    root=Machine(
        'Flat',
        states=[S('A', irows=[IR('e2'), IR('e2')]), S('B'), S('C'), S('D')],
        initial=['A'],
        rows=[
            R('A', 'e1', 'B'),                 # row
            R('A', 'e1', 'C', g=False),        # a_row  (declared later: tried before the row above)
            R('A', 'e1', 'D', a=False),        # g_row
            R('A', 'e3', 'B', a=False, g=False),   # _row
            R('A', 'e3', None),                # internal row written in the table, tried first
            R('B', 'e1', 'A'),
            R('B', 'e2', 'C', a=False),
            R('B', 'e2', None),
            R('C', 'e1', 'A', a=False, g=False),
            R('C', 'e3', 'D'),
            R('D', 'e2', 'A'),
            R('D', 'e4', 'D'),                 # self transition
            R('D', 'e4', None, a=False),       # guard-only internal row in conflict with the self transition
        ],
        irows=[IR('e4'), IR('e4'), IR('e2')],
    ),
    menu=[('pe', 'e1', 'local'), ('eq', 'e2', 'local')],
))

# ------------------------------------------------------------------------------------------------
# hier2: root with 2 regions, one holds a submachine with 2 regions, its own internal table and a
# substate internal table; outer rows on Sub for the same events as inner rows
reg(Zoo(
    name='hier2',
    events=['e1', 'e2', 'e3', 'e4', 'e5'],
    root=Machine(
        'Root',
        states=[
            S('X'),
            S('Sub', kind='sub', sub=Machine(
                'Sub',
                states=[S('S1', irows=[IR('e3')]), S('S2', irows=[IR('e5')]), S('T1'), S('T2', irows=[IR('e1')])],
                initial=['S1', 'T1'],
                rows=[
                    # rows of the second region first: its states get the lower ids, so that "region order" and
                    # "state id order" differ for the active states (S1/S2 have higher ids than T1)
                    R('T1', 'e1', 'T2'),
                    R('S1', 'e1', 'S2'),
                    R('S2', 'e1', 'S1'),
                    R('S2', 'e2', 'S1'),
                    R('T2', 'e3', 'T1'),
                    R('T1', 'e4', 'T2', a=False),
                ],
                irows=[IR('e2'), IR('e5')],
            )),
            S('Y'), S('P'), S('Q'),
        ],
        initial=['X', 'P'],
        rows=[
            R('X', 'e1', 'Sub'),
            R('Sub', 'e1', 'X'),
            R('Sub', 'e2', 'Y'),
            R('Sub', 'e3', None),
            R('Y', 'e1', 'X', a=False, g=False),
            R('Y', 'e2', 'Sub', a=False),
            R('P', 'e1', 'Q'),
            R('Q', 'e1', 'P'),
            R('P', 'e3', 'Q', a=False),
            R('Q', 'e4', 'P', g=False),
        ],
        irows=[IR('e5')],
    ),
    menu=[('pe', 'e1', 'local'), ('eq', 'e2', 'local'), ('pe', 'e4', 'root')],
))

# ------------------------------------------------------------------------------------------------
# ortho: 3 regions sharing events, conflicts, one region reacting only through an internal table
reg(Zoo(
    name='ortho',
    events=['e1', 'e2', 'e3', 'e4'],
    root=Machine(
        'Ortho',
        states=[S('A1'), S('A2'), S('B1'), S('B2'), S('C1', irows=[IR('e1'), IR('e3'), IR('e4', a=False)])],
        initial=['A1', 'B1', 'C1'],
        rows=[
            R('A1', 'e1', 'A2'),
            R('A2', 'e1', 'A1'),
            R('A1', 'e2', 'A2', a=False),
            R('B1', 'e1', 'B2'),
            R('B2', 'e1', 'B1'),
            R('B2', 'e1', 'B1', g=False),      # conflict: a_row declared later wins whenever reached
            R('B1', 'e3', 'B2', a=False, g=False),
            R('B2', 'e2', 'B1'),
            R('B2', 'e2', None),               # internal row tried before the row above
        ],
        irows=[IR('e4'), IR('e2')],
    ),
    menu=[('pe', 'e1', 'local'), ('eq', 'e3', 'local')],
))

# ------------------------------------------------------------------------------------------------
# hier3: root -> Mid -> Leaf, the same event guarded at all three levels
reg(Zoo(
    name='hier3',
    events=['e1', 'e2', 'e3', 'e4', 'e5', 'e6'],
    root=Machine(
        'Top',
        states=[
            S('R1'),
            S('Mid', kind='sub', sub=Machine(
                'Mid',
                states=[
                    S('M1'),
                    S('Leaf', kind='sub', sub=Machine(
                        'Leaf',
                        states=[S('L1'), S('L2', irows=[IR('e3')])],
                        initial=['L1'],
                        # e5 occurs in Leaf's table only (not in Mid's): Top must still forward it two levels down
                        rows=[R('L1', 'e1', 'L2'), R('L2', 'e1', 'L1'), R('L1', 'e4', 'L2', a=False), R('L2', 'e5', 'L1'), R('L1', 'e5', None, a=False)],
                        # e6 occurs ONLY here, in the innermost machine's own (machine-level) internal table
                        irows=[IR('e6')],
                    )),
                    S('N1'), S('N2'),
                ],
                initial=['M1', 'N1'],
                rows=[
                    R('M1', 'e2', 'Leaf'),
                    R('Leaf', 'e1', 'M1'),
                    R('Leaf', 'e4', None),
                    R('N1', 'e1', 'N2'),
                    R('N2', 'e1', 'N1'),
                ],
            )),
        ],
        initial=['R1'],
        rows=[
            R('R1', 'e2', 'Mid'),
            R('Mid', 'e1', 'R1'),
            R('Mid', 'e3', 'R1', a=False),
            R('Mid', 'e4', None, a=False),
            R('Mid', 'e5', 'R1'),
        ],
    ),
    menu=[('pe', 'e1', 'local'), ('eq', 'e2', 'root')],
))


# ------------------------------------------------------------------------------------------------
# wide: 4 regions at the root, 17 states in the root machine (ids up to 16), a 3-region submachine that is the INITIAL
# state of the third region; few guards so that the product of the regions stays explorable
reg(Zoo(
    name='wide',
    events=['e1', 'e2', 'e3'],
    root=Machine(
        'Wide',
        states=[
            S('A0'), S('A1'), S('A2'), S('A3'),
            S('B0'), S('B1'), S('B2'),
            S('WS', kind='sub', sub=Machine(
                'WS',
                states=[S('P0'), S('P1'), S('Q0'), S('Q1'), S('T0'), S('T1')],
                initial=['P0', 'Q0', 'T0'],
                rows=[
                    R('T0', 'e3', 'T1', a=False),
                    R('T1', 'e3', 'T0', a=False, g=False),
                    R('P0', 'e1', 'P1', a=False, g=False),
                    R('P1', 'e1', 'P0', g=False),
                    R('Q0', 'e2', 'Q1', a=False, g=False),
                    R('Q1', 'e2', 'Q0', a=False, g=False),
                ],
            )),
            S('C1'),
            S('D0'), S('D1'), S('D2'), S('D3'), S('D4'), S('D5'), S('D6'), S('D7'),
        ],
        initial=['A0', 'B0', 'WS', 'D0'],
        rows=[
            R('A0', 'e1', 'A1', a=False, g=False),
            R('A1', 'e1', 'A2', a=False),
            R('A2', 'e1', 'A3', a=False, g=False),
            R('A3', 'e1', 'A0', g=False),
            R('B0', 'e2', 'B1', a=False, g=False),
            R('B1', 'e2', 'B0', a=False, g=False),
            R('B1', 'e1', 'B2', a=False, g=False),
            R('B2', 'e2', 'B0', a=False, g=False),
            R('WS', 'e3', 'C1', a=False),
            R('C1', 'e3', 'WS', a=False, g=False),
            R('D0', 'e3', 'D1', a=False, g=False), R('D1', 'e3', 'D2', a=False, g=False), R('D2', 'e3', 'D3', a=False, g=False),
            R('D3', 'e3', 'D4', a=False, g=False), R('D4', 'e3', 'D5', a=False, g=False), R('D5', 'e3', 'D6', a=False, g=False),
            R('D6', 'e3', 'D7', g=False), R('D7', 'e3', 'D0', a=False, g=False),
        ],
    ),
))

# ------------------------------------------------------------------------------------------------
# hist{N,A,S}: a 3-region submachine under each history policy, entered plainly, by a history event,
# by explicit entry, by fork naming 2 of 3 regions
def hist_zoo(tag, history):
    return Zoo(
        name='hist' + tag,
        events=['e1', 'e2', 'e3', 'e4', 'e5', 'e6', 'e7', 'e8', 'e9'],
        root=Machine(
            'HRoot',
            states=[
                S('Out'),
                S('H', kind='sub', sub=Machine(
                    'H',
                    states=[S('A1'), S('A2', kind='explicit', zone=0), S('B1'), S('B2', kind='explicit', zone=1),
                            S('C1'), S('C2', kind='explicit', zone=2)],
                    initial=['A1', 'B1', 'C1'],
                    rows=[
                        # declared so that state ids do not follow region order (C1 < B1 < A2 < A1 ...)
                        R('C1', 'e6', 'C2', a=False, g=False),
                        R('B1', 'e5', 'B2', a=False, g=False),
                        R('A2', 'e4', 'A1', a=False, g=False), R('A1', 'e4', 'A2', a=False, g=False),
                        R('B2', 'e5', 'B1', a=False, g=False),
                        R('C2', 'e6', 'C1', a=False, g=False),
                    ],
                    history=history,
                )),
            ],
            initial=['Out'],
            rows=[
                R('Out', 'e1', 'H', a=False, g=False),                      # plain entry, non-history event
                R('Out', 'e2', 'H', a=False, g=False),                      # entry by the history event
                R('H', 'e3', 'Out', a=False),                               # leave (guarded)
                R('Out', 'e7', ('direct', 'H', 'B2'), a=False, g=False),    # explicit entry, non-history event
                R('Out', 'e8', ('fork', 'H', ['A2', 'C2']), a=False, g=False),   # fork naming regions 0 and 2
                R('Out', 'e9', ('direct', 'H', 'B2'), a=False, g=False),    # explicit entry by a history event
            ],
        ),
    )


reg(hist_zoo('N', None))
reg(hist_zoo('A', 'always'))
reg(hist_zoo('S', ('shallow', ['e2', 'e9'])))

# ------------------------------------------------------------------------------------------------
# entry: direct<>, fork, entry_pt<>, exit_pt<> on a 2-region submachine; the exit point's event can
# also be sent from outside
reg(Zoo(
    name='entry',
    events=['e1', 'e2', 'e3', 'e4', 'e5', 'e6', 'e7'],
    exit_conv=['e6'],
    root=Machine(
        'ERoot',
        states=[
            S('St1'),
            S('Sub', kind='sub', sub=Machine(
                'Sub',
                states=[
                    S('SS1'), S('SS1b'),
                    S('SS2', kind='explicit', zone=0), S('SS2b', kind='explicit', zone=1),
                    S('PEntry', kind='entry_pt', zone=0),
                    S('SS3'),
                    S('PExit', kind='exit_pt', exit_evt='e6'),
                    # a second exit point in the submachine's SECOND region (the enclosing machine has one region only)
                    S('PExit2', kind='exit_pt', exit_evt='e6'),
                ],
                initial=['SS1', 'SS1b'],
                explicit_creation=['SS2b'],
                rows=[
                    R('SS1b', 'e3', 'PExit2'),
                    R('PEntry', 'e4', 'SS3'),
                    R('SS2', 'e6', 'SS1', a=False, g=False),
                    R('SS3', 'e5', 'PExit'),
                    R('SS1', 'e7', 'SS3', a=False),
                    R('SS2', 'e5', 'PExit', a=False, g=False),
                ],
            )),
            S('St2'),
        ],
        initial=['St1'],
        rows=[
            R('St1', 'e1', 'Sub', a=False, g=False),
            R('St1', 'e2', ('direct', 'Sub', 'SS2'), a=False),
            R('St1', 'e3', ('fork', 'Sub', ['SS2', 'SS2b'])),
            R('St1', 'e4', ('entry', 'Sub', 'PEntry'), a=False, g=False),
            R('Sub', 'e1', 'St1', a=False),
            R(('exit', 'Sub', 'PExit'), 'e6', 'St2'),
            R(('exit', 'Sub', 'PExit2'), 'e6', 'St1', g=False),
            R('St2', 'e1', 'St1', a=False, g=False),
        ],
    ),
))

# ------------------------------------------------------------------------------------------------
# compl: completion chains (length 1-4), conflicting completion rows, inside a submachine, with a
# deferring state so that deferred and queued events can be pending when completion rows fire
reg(Zoo(
    name='compl',
    events=['e1', 'e2', 'e3', 'e4'],
    root=Machine(
        'CRoot',
        states=[
            S('I'), S('A'), S('B'), S('C'), S('D'),
            S('CSub', kind='sub', sub=Machine(
                'CSub',
                states=[S('P'), S('Q', kind='explicit', zone=0), S('Rr')],
                initial=['P'],
                rows=[
                    R('P', None, 'Q'),
                    R('Q', None, 'Rr'),
                    R('Rr', 'e1', 'P', a=False, g=False),
                    R('Q', 'e1', 'P', a=False, g=False),
                    R('P', 'e2', 'Q', a=False, g=False),
                ],
            )),
            S('W', defer=['e4']),
        ],
        initial=['I'],
        rows=[
            R('I', None, 'A'),
            R('A', None, 'B'),
            R('A', None, 'C'),                     # conflict: declared later, tried first
            R('B', None, 'C'),
            R('C', None, 'D', g=False),
            R('D', 'e1', 'CSub', a=False, g=False),
            R('D', 'e2', 'W', a=False, g=False),
            R('D', 'e3', ('direct', 'CSub', 'Q'), a=False, g=False),   # names every region of CSub; Q has a completion row
            R('W', 'e1', 'I', a=False, g=False),
            R('I', 'e1', 'A', a=False, g=False),
            R('A', 'e1', 'D', a=False, g=False),
            R('B', 'e1', 'D', a=False, g=False),
            R('CSub', 'e3', 'D', a=False, g=False),
            R('D', 'e4', None, g=False),
            R('B', 'e4', None, g=False),
        ],
    ),
    menu=[('pe', 'e4', 'local'), ('eq', 'e1', 'root')],
))

# ------------------------------------------------------------------------------------------------
# defer: states deferring one or two event types, a Defer action row with a guard, handling states
reg(Zoo(
    name='defer',
    events=['d1', 'd2', 'go', 'bk', 'nop'],
    root=Machine(
        'DRoot',
        states=[S('S1', defer=['d1', 'd2']), S('S2', defer=['d1']), S('S3'), S('S4')],
        initial=['S1'],
        rows=[
            R('S1', 'go', 'S2', a=False, g=False),
            R('S2', 'go', 'S3', a=False, g=False),
            R('S3', 'go', 'S4', a=False, g=False),
            R('S4', 'go', 'S1', a=False, g=False),
            R('S3', 'bk', 'S1', a=False, g=False),
            R('S2', 'bk', 'S1', a=False, g=False),
            R('S3', 'd1', None),
            R('S3', 'd2', None, g=False),
            R('S2', 'd2', None, g=False),
            R('S1', 'nop', None, g=False),
            R('S2', 'nop', None, g=False),
            R('S4', 'nop', None, g=False),
            R('S4', 'd1', None, defer=True),          # Defer action, guarded
            R('S4', 'd2', None, g=False),
        ],
    ),
    menu=[('pe', 'd1', 'local'), ('eq', 'go', 'local')],
))

# ------------------------------------------------------------------------------------------------
# block: terminate state, interrupt states with one and with two end-interrupt events, user flags on
# the blocking states, a second region that shows whether events are still processed, one deferring state
reg(Zoo(
    name='block',
    events=['e1', 'e2', 'e3', 'e4', 'e5', 'e6'],
    flags=['F1', 'F2'],
    root=Machine(
        'BRoot',
        states=[
            S('N1'), S('N2', flags=['F1']),
            S('T', kind='terminate', flags=['F2']),
            S('I1', kind='interrupt', end_events=['e5'], flags=['F1']),
            S('I2', kind='interrupt', end_events=['e5', 'e6']),
            S('M1', defer=['e4']), S('M2'), S('T2', kind='terminate'),
        ],
        initial=['N1', 'M1'],
        rows=[
            R('N1', 'e1', 'N2'),
            R('N2', 'e1', 'N1', a=False, g=False),
            R('N1', 'e2', 'T', g=False),
            R('N1', 'e3', 'I1', g=False),
            R('N2', 'e3', 'I2', a=False, g=False),
            R('I1', 'e5', 'N1', g=False),
            R('I2', 'e5', 'N2', a=False),
            R('I2', 'e6', 'N1', a=False, g=False),
            R('M1', 'e1', 'M2', a=False, g=False),
            R('M2', 'e1', 'M1', a=False, g=False),
            R('M1', 'e5', 'M2', g=False),
            R('M2', 'e4', None, g=False),
            R('M2', 'e6', None, g=False),
            R('M2', 'e3', 'T2', a=False),     # with e3 the first region enters an interrupt state in the same step
        ],
    ),
    menu=[('pe', 'e1', 'local'), ('eq', 'e4', 'local')],
))


# ------------------------------------------------------------------------------------------------
# common-subset variants for cross-configuration comparison (C13): no machine-local internal tables
# and no action+guard on exit-point rows, so that back11 compiles the very same description
def reg_common(name):
    z = make_variant(ZOO[name], 'b11v')
    z.name = name + '_c'
    z.variant = 'full'
    ZOO[z.name] = z
    return z


for _n in ('flat', 'hier2', 'ortho', 'entry', 'hier3'):
    reg_common(_n)


# defer_c: state-property deferral only (backmp11 documents a different schedule for action deferral)
def _defer_c():
    import copy
    z = copy.deepcopy(ZOO['defer'])
    z.root.rows = [r for r in z.root.rows if not r.defer]
    z.name = 'defer_c'
    z.finalize()
    ZOO[z.name] = z


_defer_c()

# ------------------------------------------------------------------------------------------------
# flags: user flags on simple states, on the submachine state, on substates; 2 regions
reg(Zoo(
    name='flags',
    events=['e1', 'e2', 'e3'],
    flags=['F1', 'F2', 'F3'],
    root=Machine(
        'FRoot',
        states=[
            S('A', flags=['F1']), S('B'),
            S('FSub', kind='sub', flags=['F2'], sub=Machine(
                'FSub',
                states=[S('U', flags=['F3']), S('V'), S('W'), S('Z', flags=['F1'])],
                initial=['U', 'W'],
                rows=[
                    R('U', 'e3', 'V', a=False, g=False), R('V', 'e3', 'U', a=False, g=False),
                    R('W', 'e1', 'Z'), R('Z', 'e1', 'W', a=False, g=False),
                ],
            )),
            S('P', flags=['F1']), S('Q', flags=['F3']),
        ],
        initial=['A', 'P'],
        rows=[
            R('A', 'e1', 'B', a=False, g=False),
            R('B', 'e1', 'FSub'),
            R('FSub', 'e2', 'A', a=False),
            R('P', 'e3', 'Q', a=False, g=False),
            R('Q', 'e3', 'P'),
        ],
    ),
))


# ------------------------------------------------------------------------------------------------
# orthoA / orthoS: a ROOT machine declared with a history policy; stop() followed by start()
def _root_history():
    import copy
    for tag, hist in (('A', 'always'), ('S', ('shallow', ['e1']))):
        z = copy.deepcopy(ZOO['ortho'])
        z.name = 'ortho' + tag
        z.root.history = hist
        z.menu = []
        reg(z)


_root_history()

# ------------------------------------------------------------------------------------------------
# hier4: hier3 wrapped once more (Top4 -> Top -> Mid -> Leaf); event e7 has rows in the innermost machine only, three
# submachine levels below the machine that receives it
def _hier4():
    import copy
    inner = copy.deepcopy(ZOO['hier3'].root)
    leaf = inner.state('Mid').sub.state('Leaf').sub
    leaf.rows += [R('L1', 'e7', 'L2'), R('L2', 'e7', 'L1', a=False)]
    reg(Zoo(
        name='hier4',
        events=['e1', 'e2', 'e3', 'e4', 'e5', 'e6', 'e7'],
        root=Machine(
            'Top4',
            states=[S('O1'), S('Top', kind='sub', sub=inner), S('O2')],
            initial=['O1'],
            rows=[
                R('O1', 'e3', 'Top', a=False, g=False),
                R('Top', 'e4', 'O2'),
                R('O2', 'e3', 'Top', a=False),
                R('O2', 'e1', 'O1', a=False, g=False),
            ],
        ),
    ))


_hier4()

# ------------------------------------------------------------------------------------------------
# twosub: two different submachine types side by side in one parent, a self-transition on a submachine state, a submachine
# that is the initial state of a region of another submachine
reg(Zoo(
    name='twosub',
    events=['e1', 'e2', 'e3'],
    root=Machine(
        'TS',
        states=[
            S('SA', kind='sub', sub=Machine(
                'SA',
                states=[S('a1'), S('a2')],
                initial=['a1'],
                rows=[R('a1', 'e1', 'a2'), R('a2', 'e1', 'a1', a=False, g=False)],
            )),
            S('SB', kind='sub', sub=Machine(
                'SB',
                states=[
                    S('SC', kind='sub', sub=Machine(
                        'SC',
                        states=[S('c1'), S('c2')],
                        initial=['c1'],
                        rows=[R('c1', 'e2', 'c2', a=False), R('c2', 'e2', 'c1', a=False, g=False)],
                    )),
                    S('b1'), S('b2'),
                ],
                initial=['SC', 'b1'],
                rows=[R('b1', 'e1', 'b2', a=False, g=False), R('b2', 'e1', 'b1', g=False)],
            )),
            S('Z1'), S('Z2'),
        ],
        initial=['SA', 'Z1'],
        rows=[
            R('SA', 'e3', 'SB', a=False, g=False),
            R('SB', 'e3', 'SA', a=False),
            R('SA', 'e2', 'SA'),                         # self-transition on a submachine state: exit everything, enter again
            R('SB', 'e2', 'SB', a=False),                # tried only when the inner machine SC did not consume e2
            R('Z1', 'e1', 'Z2', a=False, g=False),
            R('Z2', 'e1', 'Z1', a=False, g=False),
        ],
    ),
))


def _entry_history():
    import copy
    for tag, hist in (('A', 'always'), ('S', ('shallow', ['e1', 'e4']))):
        z = copy.deepcopy(ZOO['entry'])
        z.name = 'entry' + tag
        z.root.state('Sub').sub.history = hist
        z.menu = []
        reg(z)


_entry_history()

# ------------------------------------------------------------------------------------------------
# flags3: three nesting levels; F1 is carried only by a state of the innermost machine (no direct state of the
# middle machine carries it), F2 by states of the root and of the middle machine, F3 at the innermost and middle level
def _flags3():
    import copy
    z = copy.deepcopy(ZOO['hier3'])
    z.name = 'flags3'
    z.flags = ['F1', 'F2', 'F3']
    z.menu = []
    for m in z.machines():
        for st in m.states:
            st.flags = {'L2': ['F1', 'F3'], 'N2': ['F2'], 'R1': ['F2'], 'M1': ['F3']}.get(st.name, [])
    reg(z)


_flags3()


# flags4: hier4 (four machine levels) with flags only in the innermost machine and one at the outermost level, so that a
# flag query from the root has to cross two submachines that carry no flag state of their own
def _flags4():
    import copy
    z = copy.deepcopy(ZOO['hier4'])
    z.name = 'flags4'
    z.flags = ['F1', 'F2', 'F3']
    z.menu = []
    for m in z.machines():
        for st in m.states:
            st.flags = {'L2': ['F1', 'F3'], 'L1': ['F2'], 'O2': ['F2']}.get(st.name, [])
    reg(z)


_flags4()

# ------------------------------------------------------------------------------------------------
# sw_<policy>: hier2 (common subset) under each active-state-switch policy, at every level
def _switch_variants():
    import copy
    for pol in ('after_entry', 'after_exit', 'after_action', 'before'):
        z = copy.deepcopy(ZOO['hier2_c'])
        for m in z.machines():
            m.switch = pol
        z.name = 'sw_' + pol
        z.finalize()
        ZOO[z.name] = z
        f = copy.deepcopy(ZOO['flags'])
        for m in f.machines():
            m.switch = pol
        f.name = 'flags_' + pol
        f.finalize()
        ZOO[f.name] = f


_switch_variants()

# ------------------------------------------------------------------------------------------------
# evt: event hierarchy eb <- em <- el, Kleene rows, exact rows competing by position, also across a
# submachine level; one state defers the leaf event
reg(Zoo(
    name='evt',
    events=['eb', 'em', 'el', 'ex', 'ey'],
    bases={'em': 'eb', 'el': 'em'},
    configs=['b', 'bq', 'm'],
    root=Machine(
        'KRoot',
        states=[
            S('K1'), S('K2'),
            S('KSub', kind='sub', sub=Machine(
                'KSub',
                states=[S('J1'), S('J2')],
                initial=['J1'],
                rows=[
                    R('J1', 'em', 'J2'),
                    R('J2', '*', 'J1'),
                ],
            )),
            S('K3', defer=['el']),
            # K4 / K5: a state whose ONLY row for the event is a base-class row (one and two inheritance levels)
            S('K4'), S('K5'),
        ],
        initial=['K1'],
        rows=[
            R('K1', 'eb', 'K2'),                     # matches eb, em, el (tried last)
            R('K1', '*', None),                      # Kleene internal row
            R('K1', 'em', None),                     # matches em, el
            R('K1', 'el', 'K3', a=False),            # exact leaf row (tried first)
            R('K2', '*', 'K1'),
            R('K2', 'ex', 'KSub', a=False, g=False),
            R('KSub', 'eb', 'K1'),
            R('KSub', '*', None),
            R('K3', 'ey', 'K1', a=False, g=False),
            R('K3', 'ex', 'K2', a=False, g=False),
            R('K2', 'ey', 'K4', a=False, g=False),
            R('K4', 'em', 'K1'),
            R('K4', 'ex', 'K5', a=False, g=False),
            R('K5', 'eb', 'K1'),
        ],
    ),
))


def _evt_user_kleene():
    import copy
    z = copy.deepcopy(ZOO['evt'])
    z.name = 'evt_u'
    z.user_kleene = True
    reg(z)


_evt_user_kleene()

# ------------------------------------------------------------------------------------------------
# fe_<frontend>: one flat machine written in several front-end syntaxes; guards are expressions over
# three named atoms (the evaluation order of the atoms is part of the trace), actions are sequences
def _fe_variants():
    for fk in ('functor', 'basic', 'basic2', 'puml', 'euml'):
        z = Zoo(
            name='fe_' + fk,
            events=['e1', 'e2', 'e3', 'e4'],
            atoms_g=['G1', 'G2', 'G3'],
            atoms_a=['A1', 'A2', 'A3'],
            frontend=fk,
            cxx='20' if fk == 'puml' else '17',
            configs=['b', 'bc', 'bq', 'b11'] if fk == 'euml' else ['b', 'bc', 'bq', 'b11', 'm', 'mf', 'mc'],
            root=Machine(
                'Fe',
                states=[S('A'), S('B'), S('C')],
                initial=['A'],
                rows=[
                    Row('A', 'e1', 'B', gexpr=('and', 'G1', 'G2'), aseq=['A1', 'A2']),
                    Row('A', 'e1', 'C', gexpr=('or', ('not', 'G1'), 'G3'), aseq=['A3']),
                    Row('A', 'e2', None, gexpr=('or', 'G2', ('and', 'G3', ('not', 'G1'))), aseq=['A2', 'A1']),
                    Row('B', 'e1', 'A', gexpr=('and', 'G1', ('or', 'G2', ('not', 'G3'))), a=False),
                    Row('B', 'e2', 'C', g=False, aseq=['A1']),
                    Row('B', 'e3', 'B', gexpr=('not', 'G2'), aseq=['A3', 'A3']),
                    Row('C', 'e1', 'A', gexpr=('and', ('or', 'G1', 'G2'), 'G3'), aseq=['A2', 'A3', 'A1']),
                    Row('C', 'e3', 'C', gexpr=('or', ('and', 'G1', 'G2'), 'G3'), a=False),
                    Row('C', 'e2', 'B', a=False, g=False),
                    Row('A', 'e3', 'A', gexpr=('or', 'G1', ('or', 'G2', 'G3')), aseq=['A1']),
                    # e4: internal rows that the functor variant writes in the state's own internal_transition_table
                    # (guard only / action and guard / action only); declared last = tried first in the other variants,
                    # with a lower-priority row behind the guarded ones
                    Row('A', 'e4', 'B', g=False, aseq=['A2']),
                    Row('B', 'e4', 'C', a=False, g=False),
                    Row('A', 'e4', None, a=False, gexpr='G2', local=True),
                    Row('B', 'e4', None, gexpr=('not', 'G1'), aseq=['A2', 'A3'], local=True),
                    Row('C', 'e4', None, g=False, aseq=['A3', 'A1'], local=True),
                ],
            ),
        )
        reg(z)


_fe_variants()


# ------------------------------------------------------------------------------------------------
# defer2 (backmp11): deferral at any nesting level and in orthogonal regions -- a submachine whose machine
# state defers one event while its substates defer others, a second region with its own deferring state,
# one conditionally deferring state
reg(Zoo(
    name='defer2',
    events=['d1', 'd2', 'x1', 'go', 'lv', 'tg'],
    configs=['m', 'mf', 'mc'],
    root=Machine(
        'D2Root',
        states=[
            S('DS', kind='sub', defer=['x1'], sub=Machine(
                'DS',
                states=[S('I1', defer=['d1']), S('I2', defer=['d2'], cond_defer=True)],
                initial=['I1'],
                rows=[
                    R('I1', 'go', 'I2', a=False, g=False),
                    R('I2', 'go', 'I1', a=False, g=False),
                    R('I2', 'd1', None, g=False),
                    R('I2', 'd2', None, g=False),
                ],
            )),
            S('Out'),
            S('R1'), S('R2', defer=['d2']),
            # R3 (second region, visited after DS and its substates) defers d1 conditionally while I1 defers it unconditionally:
            # "deferred if ANY active state defers it", whatever the later-visited state answers
            S('R3', defer=['d1'], cond_defer=True),
        ],
        initial=['DS', 'R1'],
        rows=[
            R('DS', 'lv', 'Out', a=False, g=False),
            R('Out', 'lv', 'DS', a=False, g=False),
            R('Out', 'd1', None, g=False),
            R('Out', 'x1', None, g=False),
            R('R1', 'tg', 'R2', a=False, g=False),
            R('R2', 'tg', 'R1', a=False, g=False),
            R('R1', 'd2', None, g=False),
            R('R1', 'x1', 'R3', a=False, g=False),
            R('R3', 'tg', 'R1', a=False, g=False),
        ],
    ),
))


# deferh{N,A,S}: deferral inside a submachine under each history policy (back: the submachine's deferred
# queue follows the policy on exit; backmp11: the root's pool keeps the event)
def _deferh(tag, history):
    reg(Zoo(
        name='deferh' + tag,
        events=['d1', 'go', 'en', 'eh', 'lv'],
        root=Machine(
            'HRoot2',
            states=[
                S('Out'),
                S('HS', kind='sub', sub=Machine(
                    'HS',
                    states=[S('J1', defer=['d1']), S('J2')],
                    initial=['J1'],
                    rows=[
                        R('J1', 'go', 'J2', a=False, g=False),
                        R('J2', 'go', 'J1', a=False, g=False),
                        R('J2', 'd1', None, g=False),
                    ],
                    history=history,
                )),
            ],
            initial=['Out'],
            rows=[
                R('Out', 'en', 'HS', a=False, g=False),
                R('Out', 'eh', 'HS', a=False, g=False),
                R('HS', 'lv', 'Out', a=False, g=False),
                R('HS', 'eh', 'Out', a=False, g=False),
                R('Out', 'd1', None, g=False),
            ],
        ),
    ))


_deferh('N', None)
_deferh('A', 'always')
_deferh('S', ('shallow', ['eh']))
