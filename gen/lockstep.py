"""Lock-step exploration of several implementations of the same machine description (back-end
configurations, front-end syntaxes, switch policies): the product state space is explored with the
same operation and the same environment answers (keyed by semantic label) given to every peer, and
the normalised observations must fall into one equivalence class."""
import collections
import os
import subprocess
import time

import desc
from conform import Tok, parse_trace, snapshot_fields


class Peer:
    def __init__(self, name, exe, args=()):
        self.name = name
        self.p = subprocess.Popen([exe, 'serve', *args], stdin=subprocess.PIPE, stdout=subprocess.PIPE, text=True, bufsize=1)

    def run(self, hist):
        req = '|'.join(f'{op},{ev},' + ';'.join(f'{k}={v}' for k, v in sorted(lm.items())) for op, ev, lm in hist) or '-'
        self.p.stdin.write(req + '\n')
        self.p.stdin.flush()
        line = self.p.stdout.readline().rstrip('\n')
        if line.startswith('NONDETERMINISM') or not line:
            raise RuntimeError(f'{self.name}: {line or "peer died"} on {req}')
        f = line.split('\t')
        choices = []
        if f[3] != '-':
            for c in f[3].split(';'):
                if c:
                    lab, n, ch, kind = c.rsplit(':', 3)
                    choices.append((lab, int(n), int(ch), kind))
        return {'trace': parse_trace(f[0]), 'raw': f[0], 'ret': int(f[1]), 'canon': f[2], 'choices': choices, 'esc': f[4],
                'ledger': f[5], 'pending': int(f[6]), 'started': f[7] == '1', 'rootq': int(f[8]), 'intro': f[9] if len(f) > 9 else ''}

    def close(self):
        try:
            self.p.stdin.write('QUIT\n')
            self.p.stdin.flush()
            self.p.wait(timeout=5)
        except Exception:
            self.p.kill()


def names_of_ids(z, mid, ids):
    m = [mm for mm in z.machines() if mm.mid == mid][0]
    out = []
    for i in ids:
        nm = [s.name for s in m.states if s.lib_id == i]
        out.append(nm[0] if nm else f'?{i}')
    return out


def norm_trace(trace, z, cfg, ids_as_names=True):
    """observations in a form that does not depend on the back-end family"""
    own = {m.own_sid for m in z.machines()}
    out = []
    for t in trace:
        if t.K == '!':
            out.append(t.raw)
            continue
        if t.K == 'D':
            continue
        if t.K == 'G' and t.eid == 0 and t.res == '0':
            continue        # completion guard answering false: back re-tries, backmp11 does not (documented)
        eid = t.eid
        if eid >= 2000:
            eid -= 2000     # back wraps the event for the machine's own entry on explicit entry
        if cfg == 'mc' and t.K in 'TC' and eid >= 1000:
            eid -= 1000
        ident = t.id
        if t.K == 'T':
            ident = names_of_ids(z, t.owner, [t.id])[0] if ids_as_names else t.id
        act = t.act
        if t.K == 'N' and t.id in own and t.eid < 0:
            # the machine's own entry behaviour at start(): backmp11 (re)initialises the active ids after it, back before it
            act = None
        if act is not None and ids_as_names:
            act = ','.join(names_of_ids(z, t.owner, [int(v) for v in act.split(',')]))
        out.append((t.K, t.owner, ident, eid, t.serial, t.res, act))
    return out


def config_names(canon, z):
    f = snapshot_fields(canon)
    led = f.get('ledger', {})
    out = []
    for m in z.machines():
        if led.get(m.own_sid, 0) != 1:
            continue
        ids = [int(v) for v in f['machines'][m.mid]['a'].split(',')]
        out.append((m.mid, tuple(names_of_ids(z, m.mid, ids))))
    return tuple(out)


def raw_ids(canon, z):
    f = snapshot_fields(canon)
    led = f.get('ledger', {})
    return tuple((m.mid, f['machines'][m.mid]['a']) for m in z.machines() if led.get(m.own_sid, 0) == 1)


class LockStep:
    def __init__(self, peers, zs, cfgs, ops, qbound=2, submits=0, guards=-1, n_menu=0, max_exec=200000, deadline=None,
                 compare_ids=False, act_in_trace=True, observe=None, labels=None, faults=False):
        self.peers = peers
        self.zs = zs              # per peer: description with that family's ids
        self.cfgs = cfgs
        self.ops = ops
        self.qbound = qbound
        self.submits = submits
        self.guards = guards
        self.n_menu = n_menu
        self.max_exec = max_exec
        self.deadline = deadline
        self.compare_ids = compare_ids
        self.act_in_trace = act_in_trace
        self.observe = observe
        self.faults = faults      # after an injected exception the entry/exit ledger is legitimately unbalanced: keep exploring
        self.labels = labels or cfgs     # names used in messages (cfgs drive the normalisation)
        self.stats = collections.Counter()
        self.findings = []
        self.samples = []
        self.closed = False
        self.cap = '-'

    def observe_all(self, results, op):
        obs = []
        for r, z, cfg in zip(results, self.zs, self.cfgs):
            tr = norm_trace(r['trace'], z, cfg)
            if not self.act_in_trace:
                tr = [t if isinstance(t, str) else t[:6] for t in tr]
            ret = (r['ret'] & 1, r['ret'] == 0) if op == 'pe' else None
            o = {'trace': tr, 'ret': ret, 'config': config_names(r['canon'], z),
                 'pending': snapshot_fields(r['canon']).get('pending', []), 'esc': r['esc'] != '-'}
            if 'pool_tombstones' in os.environ.get('VERIF_DEGRADED', ''):
                o['pending'] = None     # backmp11's processed-but-not-erased pool entries cannot be told apart in this tree
            if self.compare_ids:
                o['ids'] = raw_ids(r['canon'], z)
            if self.observe:
                o['extra'] = self.observe(r, z, cfg)
            obs.append(o)
        return obs

    def enabled(self, op, st):
        n = op[0]
        if n == 'start':
            return not st['started']
        if not st['started']:
            return False
        if n in ('pe', 'eq'):
            return st['pending'] < self.qbound
        if n == 'xs':
            return st['rootq'] > 0
        if n == 'stop':
            return st['pending'] == 0
        return True

    def run(self):
        t0 = time.time()
        init = [p.run([]) for p in self.peers]
        seen = {tuple(r['canon'] for r in init)}
        frontier = collections.deque([([], init)])
        nexec = 0
        while frontier:
            hist, res0 = frontier.popleft()
            st = res0[0]
            # all peers must agree on what the driver may do next
            if any(r['pending'] > self.qbound for r in res0):
                self.stats['pruned_pending'] += 1
                continue
            for op in self.ops:
                if not all(self.enabled(op, r) for r in res0):
                    if any(self.enabled(op, r) for r in res0):
                        self.stats['enabledness_disagreement'] += 1
                    continue
                visited = set()
                stack = [{}]
                while stack:
                    lm = stack.pop()
                    key = frozenset(lm.items())
                    if key in visited:
                        continue
                    visited.add(key)
                    h2 = hist + [(op[0], op[1], lm)]
                    results = [p.run(h2) for p in self.peers]
                    nexec += 1
                    asked = {}
                    for r in results:
                        for lab, n, ch, kind in r['choices']:
                            asked[lab] = (n, kind)
                    canon_lm = {k: v for k, v in lm.items() if k in asked}
                    if canon_lm != lm:
                        self.stats['redundant_answers'] += 1
                        continue
                    self.stats['executions'] += 1
                    obs = self.observe_all(results, op[0])
                    diverged = self.judge(h2, results, obs, res0)
                    # successors in the DFS over answers
                    used_g = sum(1 for k in lm if asked[k][1] in 'gd')
                    used_s = sum(1 for k in lm if asked[k][1] == 'p')
                    for lab, (n, kind) in asked.items():
                        if lab in lm:
                            continue
                        for alt in range(1, n):
                            if kind in 'gd' and self.guards >= 0 and used_g + 1 > self.guards:
                                continue
                            if kind == 'p' and used_s + 1 > self.submits:
                                continue
                            lm2 = dict(lm)
                            lm2[lab] = alt
                            stack.append(lm2)
                    k = tuple(r['canon'] for r in results)
                    if diverged:
                        # once the peers disagree their descendants are not comparable any more: report the first divergence
                        # of every path, do not expand it
                        self.stats['pruned_after_divergence'] += 1
                    elif k not in seen:
                        seen.add(k)
                        if self.faults or not any(r['ledger'] != '-' for r in results):
                            frontier.append((h2, results))
                        else:
                            self.stats['pruned_ledger'] += 1
                    if nexec >= self.max_exec:
                        self.cap = 'max_exec'
                        break
                    if self.deadline and time.time() - t0 > self.deadline:
                        self.cap = 'deadline'
                        break
                if self.cap != '-':
                    break
            if self.cap != '-':
                break
        self.closed = not frontier and self.cap == '-'
        self.stats['states'] = len(seen)
        return self

    def judge(self, hist, results, obs, res0=None):
        ref = obs[0]
        bad = None
        for i in range(1, len(obs)):
            for field in ref:
                if obs[i][field] != ref[field]:
                    bad = (i, field)
                    break
            if bad:
                break
        nontrivial = bool(ref['trace'])
        if nontrivial:
            self.stats['nontrivial'] += 1
        if bad is None:
            if len(self.samples) < 3 and nontrivial:
                self.samples.append({'history': [(o, e, dict(l)) for o, e, l in hist], 'peers': self.labels, 'trace': results[0]['raw']})
            return False
        i, field = bad
        self.stats['divergent'] += 1
        self.findings.append({'kind': 'divergence:' + field, 'peers': (self.labels[0], self.labels[i]),
                              'history': [(o, e, dict(l)) for o, e, l in hist],
                              'msg': f'{self.labels[0]} and {self.labels[i]} differ in {field}: {obs[0][field]!r} vs {obs[i][field]!r}',
                              'raw': {self.labels[0]: results[0]['raw'], self.labels[i]: results[i]['raw']},
                              'classes': self.classes(obs),
                              'pre_pending': [snapshot_fields(r['canon']).get('pending', []) for r in (res0 or [])],
                              'pre_config': config_names(res0[0]['canon'], self.zs[0]) if res0 else (),
                              'post_configs': [o['config'] for o in obs]})
        # a difference in the raw state ids alone (names agree) leaves the peers comparable: keep exploring
        behavioural = any(obs[j][fld] != ref[fld] for j in range(1, len(obs)) for fld in ref if fld != 'ids')
        return behavioural

    def classes(self, obs):
        """partition of the peers into classes of equal observations"""
        cl = []
        for i, o in enumerate(obs):
            for c in cl:
                if obs[c[0]] == o:
                    c.append(i)
                    break
            else:
                cl.append([i])
        return [[self.labels[i] for i in c] for c in cl]
