"""Known findings: open genuine defects are listed in /verif/known_findings.json by a specific
signature (machine family, kind of divergence and a structural predicate over the failing step).
The file is read-only at run time.  'fixed' entries are documentation only and suppress nothing."""
import json
import os

VERIF = os.path.dirname(os.path.dirname(os.path.abspath(__file__)))

PREDICATES = {}


def predicate(name):
    def deco(f):
        PREDICATES[name] = f
        return f
    return deco


def load():
    p = os.path.join(VERIF, 'known_findings.json')
    if not os.path.exists(p):
        return []
    with open(p) as fh:
        d = json.load(fh)
    return [f for f in d.get('findings', []) if f.get('status') == 'open']


def match(kf, v, z):
    for f in kf:
        if v['property'] not in f['properties']:
            continue
        if f.get('cfgs') and v['cfg'] not in f['cfgs']:
            continue
        if f.get('kinds') and v['kind'] not in f['kinds']:
            continue
        if f.get('machines') and v['machine'] not in f['machines']:
            continue
        pred = f.get('predicate')
        if pred and not PREDICATES[pred](v, z, f):
            continue
        return f
    return None


@predicate('model_flag')
def _model_flag(v, z, f):
    """the reference model met the structural situation named by the finding while replaying this execution"""
    return any(fl.startswith(f['flag']) for fl in v.get('model_flags', []))


@predicate('copy_with_pending_events')
def _copy_pending(v, z, f):
    """the copy was taken while queued or deferred events were pending in the source"""
    return v.get('pending_at_copy', 0) > 0
