"""Known findings: open genuine defects are listed in /verif/known_findings.json by a specific
signature (machine family, kind of divergence and a structural predicate over the failing step).
The file is read-only at run time.  'fixed' entries are documentation only and suppress nothing."""
import json
import os

VERIF = os.path.dirname(os.path.dirname(os.path.abspath(__file__)))

PREDICATES = {}


def predicate(name):
    def deco(f):
        PREDICATES[name] = f
        return f
    return deco


def load():
    p = os.path.join(VERIF, 'known_findings.json')
    if not os.path.exists(p):
        return []
    with open(p) as fh:
        d = json.load(fh)
    return [f for f in d.get('findings', []) if f.get('status') == 'open']


def match(kf, v, z):
    for f in kf:
        if v['property'] not in f['properties']:
            continue
        if f.get('cfgs') and v['cfg'] not in f['cfgs']:
            continue
        if f.get('kinds') and v['kind'] not in f['kinds']:
            continue
        if f.get('machines') and v['machine'] not in f['machines']:
            continue
        pred = f.get('predicate')
        if pred and not PREDICATES[pred](v, z, f):
            continue
        return f
    return None


@predicate('model_flag')
def _model_flag(v, z, f):
    """the reference model met the structural situation named by the finding while replaying this execution"""
    return any(fl.startswith(f['flag']) for fl in v.get('model_flags', []))


@predicate('copy_with_pending_events')
def _copy_pending(v, z, f):
    """the copy was taken while queued or deferred events were pending in the source"""
    return v.get('pending_at_copy', 0) > 0


def _families(v):
    """the divergence separates exactly the back family from the backmp11 family"""
    cl = [set(c) for c in v.get('classes', [])]
    if len(cl) != 2:
        return False
    back = {'b', 'bc', 'bq', 'b11'}
    mp = {'m', 'mf', 'mc'}
    return (cl[0] <= back and cl[1] <= mp) or (cl[0] <= mp and cl[1] <= back)


@predicate('enqueued_then_deferred_pe')
def _enq_deferred(v, z, f):
    """lock-step: enqueue_event was used at driver level, and an event that is pending before the divergent call (or is
    submitted by it) is of a type that an active state defers (root-level deferral): the families differ in when the
    message queue / pool is drained around a deferred event"""
    if not v.get('lockstep') or not _families(v) or not v['history']:
        return False
    op, ev, _ = v['history'][-1]
    if not any(o == 'eq' for o, _, _ in v['history']):
        return False
    types = set()
    for p in v.get('pre_pending', []):
        types |= set(p)
    if op in ('pe', 'eq'):
        types.add(int(ev))
    active = {n for _, names in v.get('pre_config', ()) for n in names}
    names = {z.events[t - 1] for t in types if 0 < t <= len(z.events)}
    return any(s.name in active and (names & set(s.defer)) for m in z.machines() for s in m.states)


@predicate('enqueued_then_blocked')
def _enq_blocked(v, z, f):
    """lock-step: events (enqueued at driver level or deferred) are pending while a terminate / interrupt state is, or
    becomes, active"""
    if not v.get('lockstep') or not _families(v) or not v['history']:
        return False
    blocking = {s.name for m in z.machines() for s in m.states if s.kind in ('terminate', 'interrupt')}
    active = {n for _, names in v.get('pre_config', ()) for n in names}
    for cfgs in v.get('post_configs', []):
        active |= {n for _, names in cfgs for n in names}
    pending = any(p for p in v.get('pre_pending', [])) or v['history'][-1][0] == 'eq'
    return bool(blocking & active) and pending


@predicate('local_submission_from_substate_exit')
def _local_from_exit(v, z, f):
    """lock-step: some step of the history submitted an event to the local Fsm (a submachine) from the exit behaviour of one
    of its substates (answer label pX.<machine != root>...) -- the situation of KF1, seen through enqueue_event: back keeps
    the event for the next activation of the submachine, backmp11 drops it when the submachine is entered again"""
    if not v.get('lockstep') or not _families(v):
        return False
    for op, ev, lm in v['history']:
        for lab, alt in lm.items():
            if lab.startswith('pX.') and lab.split('.')[1] != '0' and alt >= 1:
                api, e, tgt = z.menu[alt - 1]
                if tgt == 'local':
                    return True
    return False
