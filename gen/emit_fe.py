"""Other front-end syntaxes for the same (flat, single-level) description: basic member-function rows
(row / a_row / g_row / _row, irow family; 'basic2': the row2 family) and a PlantUML string."""
from desc import *
import emit as E


def cxx_expr(z, x, evname):
    """the guard expression written in plain C++ over the atom member functions: the reference for
    precedence and short-circuiting"""
    if isinstance(x, str):
        return f'atom_{x}(e)'
    if x[0] == 'not':
        return '!' + (cxx_expr(z, x[1], evname) if isinstance(x[1], str) else '(' + cxx_expr(z, x[1], evname) + ')')
    if x[0] == 'and':
        l = cxx_expr(z, x[1], evname)
        r = cxx_expr(z, x[2], evname)
        if isinstance(x[1], tuple) and x[1][0] == 'or':
            l = '(' + l + ')'
        if isinstance(x[2], tuple) and x[2][0] == 'or':
            r = '(' + r + ')'
        return f'{l} && {r}'
    if x[0] == 'or':
        return f'{cxx_expr(z, x[1], evname)} || {cxx_expr(z, x[2], evname)}'
    raise ValueError(x)


def puml_expr(z, x):
    if isinstance(x, str):
        return x
    if x[0] == 'not':
        return '!' + (puml_expr(z, x[1]) if isinstance(x[1], str) else '(' + puml_expr(z, x[1]) + ')')
    if x[0] == 'and':
        l = puml_expr(z, x[1])
        r = puml_expr(z, x[2])
        if isinstance(x[1], tuple) and x[1][0] == 'or':
            l = '(' + l + ')'
        if isinstance(x[2], tuple) and x[2][0] == 'or':
            r = '(' + r + ')'
        return f'{l} && {r}'
    if x[0] == 'or':
        return f'{puml_expr(z, x[1])} || {puml_expr(z, x[2])}'
    raise ValueError(x)


def emit_basic(z: Zoo, two=False):
    m = z.root
    assert not any(s.kind == 'sub' for s in m.states), 'front-end variants are generated for flat machines'
    fe = m.name + '_'
    out = []
    out.append(f'struct {fe};')
    out.append(f'typedef VF_HIST({E.hist_back(z, m)}) {m.name}_hist;')
    out.append(f'typedef VF_BACK({fe}, {m.name}_hist) {m.name};')
    out.append(f'struct {fe} : msm::front::state_machine_def<{fe}, vf::VBase> {{')
    out.append(f'  enum {{ mid = {m.mid}, own_sid = {m.own_sid}, vf_nregions = {len(m.initial)} }};')
    out.append(f'  virtual int vsid() const {{ return {m.own_sid}; }}')
    out.append(f'  void accept(vf::Visitor& v) const {{ v.ids.push_back({m.own_sid}); }}')
    out.append(f'  typedef {E.hist_front(z, m)} history;')
    out.append(f'  typedef {fe} F_;')
    out.append(f'  {m.name}& self() {{ return static_cast<{m.name}&>(*this); }}')
    for s in m.states:
        out.append(E.emit_state(z, m, s, with_local=False))
    inits = ','.join(m.initial)
    out.append(f'  typedef mpl::vector<{inits}> initial_state;' if len(m.initial) > 1 else f'  typedef {inits} initial_state;')
    # atoms as member templates
    for g, gid in z.gatom.items():
        out.append(f'  template <class Ev> bool atom_{g}(Ev const& e) {{ return vf::callback(\'G\', {gid}, e, self()); }}')
    rows = []
    for i, r in enumerate(m.rows):
        ev = E.cxx_evt(z, r.evt)
        src = r.src
        tgt = r.tgt
        gname = aname = None
        if r.g:
            gname = f'guard_{i}'
            if r.gexpr is not None:
                out.append(f'  bool {gname}({ev} const& e) {{ return {cxx_expr(z, r.gexpr, ev)}; }}')
            else:
                out.append(f'  bool {gname}({ev} const& e) {{ return vf::callback(\'G\', {r.gid}, e, self()); }}')
        if r.a:
            aname = f'action_{i}'
            if r.aseq is not None:
                body = ' '.join(f'vf::callback(\'A\', {z.aatom[a]}, e, self());' for a in r.aseq)
                out.append(f'  void {aname}({ev} const& e) {{ {body} }}')
            else:
                out.append(f'  void {aname}({ev} const& e) {{ vf::callback(\'A\', {r.aid}, e, self()); }}')
        if tgt is None:
            if r.a and r.g:
                rows.append(f'irow<{src}, {ev}, &F_::{aname}, &F_::{gname}>')
            elif r.a:
                rows.append(f'a_irow<{src}, {ev}, &F_::{aname}>')
            elif r.g:
                rows.append(f'g_irow<{src}, {ev}, &F_::{gname}>')
            else:
                rows.append(f'_irow<{src}, {ev}>')
        elif two:
            if r.a and r.g:
                rows.append(f'msm::front::row2<{src}, {ev}, {tgt}, F_, &F_::{aname}, F_, &F_::{gname}>')
            elif r.a:
                rows.append(f'msm::front::a_row2<{src}, {ev}, {tgt}, F_, &F_::{aname}>')
            elif r.g:
                rows.append(f'msm::front::g_row2<{src}, {ev}, {tgt}, F_, &F_::{gname}>')
            else:
                rows.append(f'msm::front::_row2<{src}, {ev}, {tgt}>')
        else:
            if r.a and r.g:
                rows.append(f'row<{src}, {ev}, {tgt}, &F_::{aname}, &F_::{gname}>')
            elif r.a:
                rows.append(f'a_row<{src}, {ev}, {tgt}, &F_::{aname}>')
            elif r.g:
                rows.append(f'g_row<{src}, {ev}, {tgt}, &F_::{gname}>')
            else:
                rows.append(f'_row<{src}, {ev}, {tgt}>')
    out.append('  struct transition_table : mpl::vector<\n    ' + ',\n    '.join(rows) + '> {};')
    out.append('  int vf_data = 0;')
    out.append(f'  template <class Ev, class F> void on_entry(Ev const& e, F& f) {{ vf::callback(\'N\', {m.own_sid}, e, f); }}')
    out.append(f'  template <class Ev, class F> void on_exit(Ev const& e, F& f) {{ vf::callback(\'X\', {m.own_sid}, e, f); }}')
    out.append('  template <class F, class Ev> void no_transition(Ev const& e, F& f, int st) { vf::callback(\'T\', st, e, f); }')
    out.append('  template <class F, class Ev> void exception_caught(Ev const& e, F& f, std::exception&) { vf::callback(\'C\', 0, e, f); }')
    out.append('};')
    return '\n'.join(out)


def emit_puml(z: Zoo):
    """states, events, guards and actions are specialisations of the puml templates; the table is the string"""
    m = z.root
    fe = m.name + '_'
    out = []
    out.append('} // namespace zoo')
    out.append('namespace boost::msm::front::puml {')
    for e in z.events:
        out.append(f'template <> struct Event<by_name("{e}")> : vf::EvBase {{ enum {{ eid = {z.eid[e]} }}; Event() {{}} Event(int s, int p) : vf::EvBase(s, p) {{}} }};')
    for s in m.states:
        assert s.kind == 'simple' and not s.irows and not s.defer
        out.append(f'template <> struct State<by_name("{s.name}")> : vf::ZS<{s.sid}, msm::front::state<vf::VBase> > {{}};')
    for g, gid in z.gatom.items():
        out.append(f'template <> struct Guard<by_name("{g}")> : vf::Grd<{gid},-1> {{}};')
    for a, aid in z.aatom.items():
        out.append(f'template <> struct Action<by_name("{a}")> : vf::Act<{aid}> {{}};')
    out.append('}')
    out.append('namespace zoo {')
    out.append('using namespace boost::msm::front::puml;')
    for e in z.events:
        out.append(f'typedef msm::front::puml::Event<by_name("{e}")> Ev_{e};')
    lines = ['@startuml ' + m.name, 'state ' + m.name + '{']
    for i in m.initial:
        lines.append(f'[*] -> {i}')
    arrows = ['->', '-->', '--->', '---->']
    for i, r in enumerate(m.rows):
        assert r.gexpr is not None or not r.g, 'puml variant: guards are expressions over named atoms'
        assert r.aseq is not None or not r.a
        tgt = r.tgt if r.tgt is not None else r.src
        evn = ('-' if r.tgt is None else '') + (r.evt if r.evt is not None else '')
        line = f'{r.src} {arrows[i % 4]} {tgt} : {evn}'
        a_part = (' / ' + ', '.join(r.aseq)) if r.aseq else ''
        g_part = (' [' + puml_expr(z, r.gexpr) + ']') if r.gexpr is not None else ''
        # both documented orders of the two parts are used
        line += (a_part + g_part) if i % 2 == 0 else (g_part + a_part)
        lines.append(line)
    lines += ['}', '@enduml']
    out.append(f'struct {fe} : msm::front::state_machine_def<{fe}, vf::VBase> {{')
    out.append(f'  enum {{ mid = {m.mid}, own_sid = {m.own_sid}, vf_nregions = {len(m.initial)} }};')
    out.append(f'  virtual int vsid() const {{ return {m.own_sid}; }}')
    out.append(f'  void accept(vf::Visitor& v) const {{ v.ids.push_back({m.own_sid}); }}')
    out.append(f'  typedef {E.hist_front(z, m)} history;')
    for s_ in m.states:
        out.append(f'  typedef msm::front::puml::State<by_name("{s_.name}")> {s_.name};')
    out.append('  BOOST_MSM_PUML_DECLARE_TABLE(\n    R"(\n    ' + '\n    '.join(lines) + '\n    )"\n  )')
    out.append('  int vf_data = 0;')
    out.append(f'  template <class Ev, class F> void on_entry(Ev const& e, F& f) {{ vf::callback(\'N\', {m.own_sid}, e, f); }}')
    out.append(f'  template <class Ev, class F> void on_exit(Ev const& e, F& f) {{ vf::callback(\'X\', {m.own_sid}, e, f); }}')
    out.append('  template <class F, class Ev> void no_transition(Ev const& e, F& f, int st) { vf::callback(\'T\', st, e, f); }')
    out.append('  template <class F, class Ev> void exception_caught(Ev const& e, F& f, std::exception&) { vf::callback(\'C\', 0, e, f); }')
    out.append('};')
    out.append(f'typedef VF_HIST({E.hist_back(z, m)}) {m.name}_hist;')
    out.append(f'typedef VF_BACK({fe}, {m.name}_hist) {m.name};')
    # the states live in the puml namespace: make the names the driver uses resolve
    out.append(f'struct {m.name}_states {{')
    for s in m.states:
        out.append(f'  typedef msm::front::puml::State<by_name("{s.name}")> {s.name};')
    out.append('};')
    return '\n'.join(out)


def euml_expr(z, x):
    if isinstance(x, str):
        return f'g_{x}'
    if x[0] == 'not':
        return '!' + (euml_expr(z, x[1]) if isinstance(x[1], str) else '(' + euml_expr(z, x[1]) + ')')
    if x[0] == 'and':
        l = euml_expr(z, x[1])
        r = euml_expr(z, x[2])
        if isinstance(x[1], tuple) and x[1][0] == 'or':
            l = '(' + l + ')'
        if isinstance(x[2], tuple) and x[2][0] == 'or':
            r = '(' + r + ')'
        return f'{l} && {r}'
    if x[0] == 'or':
        return f'{euml_expr(z, x[1])} || {euml_expr(z, x[2])}'
    raise ValueError(x)


def emit_euml(z: Zoo):
    """functor front-end whose transition table is an eUML expression (BOOST_MSM_EUML_DECLARE_TRANSITION_TABLE)"""
    m = z.root
    fe = m.name + '_'
    out = []
    out.append('using namespace boost::msm::front::euml;')
    for e in z.events:
        out.append(f'struct Ev_{e} : vf::EvBase, euml_event<Ev_{e}> {{ enum {{ eid = {z.eid[e]} }}; Ev_{e}() {{}} Ev_{e}(int s, int p) : vf::EvBase(s, p) {{}} }};')
    for g, gid in z.gatom.items():
        out.append(f'struct G_{g} : euml_action<G_{g}> {{ template <class Ev, class F, class S, class T> bool operator()(Ev const& e, F& f, S&, T&) const {{ return vf::callback(\'G\', {gid}, e, f); }} }};')
        out.append(f'static G_{g} const g_{g};')
    for a, aid in z.aatom.items():
        out.append(f'struct A_{a} : euml_action<A_{a}> {{ template <class Ev, class F, class S, class T> void operator()(Ev const& e, F& f, S&, T&) const {{ vf::callback(\'A\', {aid}, e, f); }} }};')
        out.append(f'static A_{a} const a_{a};')
    for s_ in m.states:
        assert s_.kind == 'simple' and not s_.irows and not s_.defer
        out.append(f'struct {s_.name} : vf::ZS<{s_.sid}, msm::front::state<vf::VBase> >, euml_state<{s_.name}> {{}};')
    out.append(f'struct {fe} : msm::front::state_machine_def<{fe}, vf::VBase> {{')
    out.append(f'  enum {{ mid = {m.mid}, own_sid = {m.own_sid}, vf_nregions = {len(m.initial)} }};')
    out.append(f'  virtual int vsid() const {{ return {m.own_sid}; }}')
    out.append(f'  void accept(vf::Visitor& v) const {{ v.ids.push_back({m.own_sid}); }}')
    out.append(f'  typedef {E.hist_front(z, m)} history;')
    for s_ in m.states:
        out.append(f'  typedef zoo::{s_.name} {s_.name};')
    inits = ','.join(m.initial)
    out.append(f'  typedef mpl::vector<{inits}> initial_state;' if len(m.initial) > 1 else f'  typedef {inits} initial_state;')
    rows = []
    for i, r in enumerate(m.rows):
        t = f'{r.src}() + Ev_{r.evt}()'
        if r.gexpr is not None:
            t += ' [' + euml_expr(z, r.gexpr) + ']'
        if r.aseq:
            t += ' / ' + ('(' + ', '.join('a_' + a for a in r.aseq) + ')' if len(r.aseq) > 1 else 'a_' + r.aseq[0])
        if r.tgt is not None:
            # both documented orientations of a row are used
            t = (t + f' == {r.tgt}()') if i % 2 == 0 else (f'{r.tgt}() == ' + t)
        rows.append(t)
    out.append('  BOOST_MSM_EUML_DECLARE_TRANSITION_TABLE((\n    ' + ',\n    '.join(rows) + '\n  ), transition_table)')
    out.append('  int vf_data = 0;')
    out.append(f'  template <class Ev, class F> void on_entry(Ev const& e, F& f) {{ vf::callback(\'N\', {m.own_sid}, e, f); }}')
    out.append(f'  template <class Ev, class F> void on_exit(Ev const& e, F& f) {{ vf::callback(\'X\', {m.own_sid}, e, f); }}')
    out.append('  template <class F, class Ev> void no_transition(Ev const& e, F& f, int st) { vf::callback(\'T\', st, e, f); }')
    out.append('  template <class F, class Ev> void exception_caught(Ev const& e, F& f, std::exception&) { vf::callback(\'C\', 0, e, f); }')
    out.append('};')
    out.append(f'typedef VF_HIST({E.hist_back(z, m)}) {m.name}_hist;')
    out.append(f'typedef VF_BACK({fe}, {m.name}_hist) {m.name};')
    return '\n'.join(out)


def emit(z: Zoo) -> str:
    pre = E.PRELUDE % {'name': z.name + ' [' + z.frontend + ']', 'defs': ''}
    if z.frontend in ('basic', 'basic2'):
        return pre + E.emit_events(z) + emit_basic(z, two=(z.frontend == 'basic2')) + '\n' + E.emit_driver(z) + '\n'
    if z.frontend == 'puml':
        pre = pre.replace('#include "cfg.hpp"', '#include "cfg.hpp"\n#include <boost/msm/front/puml/puml.hpp>')
        flags = ''.join(f'struct Fl_{f} {{}};\n' for f in z.flags)
        return pre + flags + emit_puml(z) + '\n' + E.emit_driver(z) + '\n'
    if z.frontend == 'euml':
        pre = pre.replace('#include "cfg.hpp"', '#include "cfg.hpp"\n#include <boost/msm/front/euml/euml.hpp>')
        flags = ''.join(f'struct Fl_{f} {{}};\n' for f in z.flags)
        return pre + flags + emit_euml(z) + '\n' + E.emit_driver(z) + '\n'
    raise ValueError(z.frontend)
