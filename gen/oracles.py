"""Property oracles.  Each oracle looks at one explored execution (implementation trace + result +
state before/after) next to the reference model's prediction for the same operation and the same
environment answers, and returns a list of findings (kind, message).  An oracle compares only the
projection its property talks about; other differences are the business of other properties."""
from conform import Tok, snapshot_fields

HT, HG, HD = 1, 2, 4


def norm_tok(t: Tok, cfg, with_act=False):
    """normal form of one record; favor_compile_time of backmp11 hands std::any to no_transition /
    exception_caught (documented normalisation), so the Kleene marker is dropped there"""
    if t.K == '!':
        return t.raw
    eid = t.eid
    if cfg == 'mc' and t.K in 'TC' and eid >= 1000:
        eid -= 1000
    k = (t.K, t.owner, t.id, eid, t.serial, t.res)
    if with_act:
        k = k + (t.act,)
    return k


def proj(trace, cfg, kinds, with_act=False):
    return [norm_tok(t, cfg, with_act) for t in trace if t.K in kinds]


def first_diff(a, b):
    n = min(len(a), len(b))
    for i in range(n):
        if a[i] != b[i]:
            return i
    if len(a) != len(b):
        return n
    return -1


def fmt(seq):
    return ' '.join(':'.join(str(x) for x in t) if isinstance(t, tuple) else str(t) for t in seq)


def ret_status_ok(x):
    """handled bit and zero-ness agree with the model (pe operations only)"""
    if x.op != 'pe' or x.ret < 0 or x.mret is None:
        return True
    return (x.ret & HT) == (x.mret & HT) and (x.ret == 0) == (x.mret == 0)


def impl_config(canon, z):
    """active configuration by names for machines the ledger says are inside"""
    f = snapshot_fields(canon)
    led = f.get('ledger', {})
    out = []
    for m in z.machines():
        inside = led.get(m.own_sid, 0) == 1
        if not inside:
            continue
        # a submachine is inside only if every ancestor is
        ids = [int(v) for v in f['machines'][m.mid]['a'].split(',')]
        names = []
        for i in ids:
            nm = [s.name for s in m.states if s.lib_id == i]
            names.append(nm[0] if nm else f'?{i}')
        out.append((m.mid, tuple(names)))
    return tuple(out)


# ---------------------------------------------------------------------------------------------
def selection_equal(x, cfg):
    return proj(x.trace, cfg, 'GA') == proj(x.mtrace, cfg, 'GA')


def o_C01(x, ctx):
    """enabled-transition selection: ordered guard evaluations with results, the actions taken,
    handled/zero status; no guard evaluated twice for one occurrence"""
    out = []
    a = proj(x.trace, ctx.cfg, 'GAD')
    b = proj(x.mtrace, ctx.cfg, 'GAD')
    d = first_diff(a, b)
    if d >= 0:
        out.append(('selection', f'guard/action sequence differs at #{d}: impl [{fmt(a)}] model [{fmt(b)}]'))
    if not out and not ret_status_ok(x):
        out.append(('status', f'handled/zero status impl={x.ret} model={x.mret}'))
    seen = set()
    for t in x.trace:
        if t.K == 'G':
            k = (t.owner, t.id, t.serial)
            if k in seen and t.eid != 0 and not ctx.nested:
                out.append(('guard-twice', f'guard {t.id} evaluated twice for occurrence {t.serial}'))
            seen.add(k)
    return out


def o_C02(x, ctx):
    """execution order of what was selected: guard, exit cascade, action, entry cascade, then the
    configuration; compared only where the selection itself agrees (selection is C01's business)"""
    if not selection_equal(x, ctx.cfg):
        ctx.count('skipped_selection_diverged')
        return []
    out = []
    a = proj(x.trace, ctx.cfg, 'GXAN')
    b = proj(x.mtrace, ctx.cfg, 'GXAN')
    d = first_diff(a, b)
    if d >= 0:
        out.append(('order', f'exit/action/entry order differs at #{d}: impl [{fmt(a)}] model [{fmt(b)}]'))
        return out
    ic = impl_config(ctx.dst_canon(x), ctx.z)
    mc = x.mworld.config()
    if ic != mc:
        out.append(('config', f'configuration after the call impl {ic} model {mc}'))
    return out


def o_C06(x, ctx):
    """regions once in order; handled bit <=> some transition taken; zero <=> nothing matched;
    no_transition exactly when zero and not completion, once per region with its active id, on the
    called machine only"""
    if x.op != 'pe':
        return []
    out = []
    a = proj(x.trace, ctx.cfg, 'GAT')
    b = proj(x.mtrace, ctx.cfg, 'GAT')
    d = first_diff(a, b)
    if d >= 0:
        out.append(('regions', f'per-region guard/action/no_transition sequence differs at #{d}: impl [{fmt(a)}] model [{fmt(b)}]'))
        return out
    if not ret_status_ok(x):
        out.append(('status', f'result code impl={x.ret} model={x.mret} (handled bit / zero contract)'))
    # direct statement checks, independent of the model
    took = any(t.K == 'A' for t in x.trace) or any(t.K in 'XN' for t in x.trace)
    nts = [t for t in x.trace if t.K == 'T']
    if x.ret == 0 and not nts and x.esc == '-':
        out.append(('no_transition-missing', 'result 0 but no_transition not invoked'))
    if x.ret != 0 and nts:
        out.append(('no_transition-spurious', f'result {x.ret} but no_transition invoked'))
    if nts and any(t.owner != 0 for t in nts):
        out.append(('no_transition-submachine', 'no_transition invoked on a submachine'))
    if took and not (x.ret & HT) and x.esc == '-' and not any(t.K == 'C' for t in x.trace):
        out.append(('handled-bit', f'a transition ran but the handled bit is clear (ret={x.ret})'))
    return out


def o_C07(x, ctx):
    """hierarchy: bubbling level by level, single consumption, cascaded exit/entry order, configuration"""
    out = []
    a = proj(x.trace, ctx.cfg, 'GAXN')
    b = proj(x.mtrace, ctx.cfg, 'GAXN')
    d = first_diff(a, b)
    if d >= 0:
        out.append(('hierarchy', f'bubbling / cascade differs at #{d}: impl [{fmt(a)}] model [{fmt(b)}]'))
        return out
    ic = impl_config(ctx.dst_canon(x), ctx.z)
    mc = x.mworld.config()
    if ic != mc:
        out.append(('config', f'configuration after the call impl {ic} model {mc}'))
    # single consumption, straight from the statement: at most one action/transition per region and level
    return out


ORACLES = {'C01': o_C01, 'C02': o_C02, 'C06': o_C06, 'C07': o_C07}
