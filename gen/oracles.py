"""Property oracles.  Each oracle looks at one explored execution (implementation trace + result +
state before/after) next to the reference model's prediction for the same operation and the same
environment answers, and returns a list of findings (kind, message).  An oracle compares only the
projection its property talks about; other differences are the business of other properties."""
from conform import Tok, snapshot_fields

HT, HG, HD = 1, 2, 4


def norm_tok(t: Tok, cfg, with_act=False):
    """normal form of one record; favor_compile_time of backmp11 hands std::any to no_transition /
    exception_caught (documented normalisation), so the Kleene marker is dropped there"""
    if t.K == '!':
        return t.raw
    eid = t.eid
    if cfg == 'mc' and t.K in 'TC' and eid >= 1000:
        eid -= 1000
    k = (t.K, t.owner, t.id, eid, t.serial, t.res)
    if with_act:
        k = k + (t.act,)
    return k


def proj(trace, cfg, kinds, with_act=False):
    return [norm_tok(t, cfg, with_act) for t in trace if t.K in kinds]


def first_diff(a, b):
    n = min(len(a), len(b))
    for i in range(n):
        if a[i] != b[i]:
            return i
    if len(a) != len(b):
        return n
    return -1


def fmt(seq):
    return ' '.join(':'.join(str(x) for x in t) if isinstance(t, tuple) else str(t) for t in seq)


def ret_status_ok(x):
    """handled bit and zero-ness agree with the model (pe operations only)"""
    if x.op != 'pe' or x.ret < 0 or x.mret is None:
        return True
    return (x.ret & HT) == (x.mret & HT) and (x.ret == 0) == (x.mret == 0)


def impl_config(canon, z):
    """active configuration by names for machines the ledger says are inside"""
    f = snapshot_fields(canon)
    led = f.get('ledger', {})
    out = []
    for m in z.machines():
        inside = led.get(m.own_sid, 0) == 1
        if not inside:
            continue
        # a submachine is inside only if every ancestor is
        ids = [int(v) for v in f['machines'][m.mid]['a'].split(',')]
        names = []
        for i in ids:
            nm = [s.name for s in m.states if s.lib_id == i]
            names.append(nm[0] if nm else f'?{i}')
        out.append((m.mid, tuple(names)))
    return tuple(out)


# ---------------------------------------------------------------------------------------------
def selection_equal(x, cfg):
    return proj(x.trace, cfg, 'GA') == proj(x.mtrace, cfg, 'GA')


def o_C01(x, ctx):
    """enabled-transition selection: ordered guard evaluations with results, the actions taken,
    handled/zero status; no guard evaluated twice for one occurrence"""
    out = []
    a = proj(x.trace, ctx.cfg, 'GAD')
    b = proj(x.mtrace, ctx.cfg, 'GAD')
    d = first_diff(a, b)
    if d >= 0:
        out.append(('selection', f'guard/action sequence differs at #{d}: impl [{fmt(a)}] model [{fmt(b)}]'))
    if not out and not ret_status_ok(x):
        out.append(('status', f'handled/zero status impl={x.ret} model={x.mret}'))
    seen = set()
    for t in x.trace:
        if t.K == 'G':
            k = (t.owner, t.id, t.serial)
            if k in seen and t.eid != 0 and not ctx.nested:
                out.append(('guard-twice', f'guard {t.id} evaluated twice for occurrence {t.serial}'))
            seen.add(k)
    return out


def o_C02(x, ctx):
    """execution order of what was selected: guard, exit cascade, action, entry cascade, then the
    configuration; compared only where the selection itself agrees (selection is C01's business)"""
    if not selection_equal(x, ctx.cfg):
        ctx.count('skipped_selection_diverged')
        return []
    out = []
    a = proj(x.trace, ctx.cfg, 'GXAN')
    b = proj(x.mtrace, ctx.cfg, 'GXAN')
    d = first_diff(a, b)
    if d >= 0:
        out.append(('order', f'exit/action/entry order differs at #{d}: impl [{fmt(a)}] model [{fmt(b)}]'))
        return out
    ic = impl_config(ctx.dst_canon(x), ctx.z)
    mc = x.mworld.config()
    if ic != mc:
        out.append(('config', f'configuration after the call impl {ic} model {mc}'))
    return out


def o_C06(x, ctx):
    """regions once in order; handled bit <=> some transition taken; zero <=> nothing matched;
    no_transition exactly when zero and not completion, once per region with its active id, on the
    called machine only"""
    if x.op != 'pe':
        return []
    out = []
    a = proj(x.trace, ctx.cfg, 'GAT')
    b = proj(x.mtrace, ctx.cfg, 'GAT')
    d = first_diff(a, b)
    if d >= 0:
        out.append(('regions', f'per-region guard/action/no_transition sequence differs at #{d}: impl [{fmt(a)}] model [{fmt(b)}]'))
        return out
    if not ret_status_ok(x):
        out.append(('status', f'result code impl={x.ret} model={x.mret} (handled bit / zero contract)'))
    # direct statement checks, independent of the model
    took = any(t.K == 'A' for t in x.trace) or any(t.K in 'XN' for t in x.trace)
    nts = [t for t in x.trace if t.K == 'T']
    if x.ret == 0 and not nts and x.esc == '-':
        out.append(('no_transition-missing', 'result 0 but no_transition not invoked'))
    if x.ret != 0 and nts:
        out.append(('no_transition-spurious', f'result {x.ret} but no_transition invoked'))
    if nts and any(t.owner != 0 for t in nts):
        out.append(('no_transition-submachine', 'no_transition invoked on a submachine'))
    if took and not (x.ret & HT) and x.esc == '-' and not any(t.K == 'C' for t in x.trace):
        out.append(('handled-bit', f'a transition ran but the handled bit is clear (ret={x.ret})'))
    return out


def o_C07(x, ctx):
    """hierarchy: bubbling level by level, single consumption, cascaded exit/entry order, configuration"""
    out = []
    a = proj(x.trace, ctx.cfg, 'GAXN')
    b = proj(x.mtrace, ctx.cfg, 'GAXN')
    d = first_diff(a, b)
    if d >= 0:
        out.append(('hierarchy', f'bubbling / cascade differs at #{d}: impl [{fmt(a)}] model [{fmt(b)}]'))
        return out
    ic = impl_config(ctx.dst_canon(x), ctx.z)
    mc = x.mworld.config()
    if ic != mc:
        out.append(('config', f'configuration after the call impl {ic} model {mc}'))
    # single consumption, straight from the statement: at most one action/transition per region and level
    return out


ORACLES = {'C01': o_C01, 'C02': o_C02, 'C06': o_C06, 'C07': o_C07}


# ---------------------------------------------------------------------------------------------
def config_check(x, ctx):
    ic = impl_config(ctx.dst_canon(x), ctx.z)
    mc = x.mworld.config()
    if ic != mc:
        return [('config', f'configuration after the call impl {ic} model {mc}')]
    return []


def o_C08(x, ctx):
    """history: which substates are (re-)entered and which configuration results"""
    out = []
    a = proj(x.trace, ctx.cfg, 'N')
    b = proj(x.mtrace, ctx.cfg, 'N')
    # the machine's own entry may carry the back-end's wrapper event type; C08 is about which states
    a = [(k[0], k[1], k[2]) for k in a]
    b = [(k[0], k[1], k[2]) for k in b]
    d = first_diff(a, b)
    if d >= 0:
        out.append(('restored-states', f'entry behaviours differ at #{d}: impl [{fmt(a)}] model [{fmt(b)}]'))
        return out
    return config_check(x, ctx)


def o_C09(x, ctx):
    """explicit entry / fork / entry point / exit point: entry+exit log with the event seen by the
    substates, guard/action of the connected rows, resulting configuration"""
    out = []
    own = {m.own_sid for m in ctx.z.machines()}

    def pr(trace):
        r = []
        for t in trace:
            if t.K not in 'GANXT':
                continue
            k = norm_tok(t, ctx.cfg)
            if t.K == 'N' and t.id in own:
                k = (k[0], k[1], k[2], 'own', k[4], k[5])   # the machine's own entry: event type not part of C09
            r.append(k)
        return r
    a = pr(x.trace)
    b = pr(x.mtrace)
    d = first_diff(a, b)
    if d >= 0:
        out.append(('pseudo-state', f'entry/exit/guard/action log differs at #{d}: impl [{fmt(a)}] model [{fmt(b)}]'))
        return out
    return config_check(x, ctx)


def o_C03(x, ctx):
    """entry/exit alternate (ledger), stop() exits each active state once innermost first, start()
    after stop() re-enters; introspection agreement is a state oracle (s_C03)"""
    out = []
    if x.ledger != '-':
        out.append(('ledger', f'entry/exit ledger: {x.ledger}'))
    if x.op in ('start', 'stop'):
        a = proj(x.trace, ctx.cfg, 'NX')
        b = proj(x.mtrace, ctx.cfg, 'NX')
        a = [(k[0], k[1], k[2]) for k in a]
        b = [(k[0], k[1], k[2]) for k in b]
        d = first_diff(a, b)
        if d >= 0:
            out.append((x.op, f'{x.op}() entry/exit sequence differs at #{d}: impl [{fmt(a)}] model [{fmt(b)}]'))
    return out


def s_C03(sid, canon, intro, ctx):
    """at every quiescent state: exactly one active state per region of every active machine, in
    that region; every introspection API describes exactly the ledger's set; ids as documented"""
    out = []
    z = ctx.z
    f = snapshot_fields(canon)
    led = f.get('ledger', {})
    inside = {s for s, v in led.items() if v == 1}
    bad = {s: v for s, v in led.items() if v not in (0, 1)}
    if bad:
        out.append(('ledger', f'entry-minus-exit counts outside {{0,1}}: {bad}'))
    started = f.get('started', False)
    expect = set()
    byname = {}
    for m in z.machines():
        for s in m.states:
            byname[s.sid] = (m, s)

    def walk(m):
        expect.add(m.own_sid)
        ids = [int(v) for v in f['machines'][m.mid]['a'].split(',')]
        for r, i in enumerate(ids):
            cand = [s for s in m.states if s.lib_id == i]
            if not cand:
                out.append(('ids', f'machine {m.name} region {r} reports id {i} which the numbering rule does not define'))
                continue
            s = cand[0]
            if s.region != r:
                out.append(('region', f'machine {m.name} region {r} reports state {s.name} of region {s.region}'))
            expect.add(s.sid)
            if s.kind == 'sub':
                walk(s.sub)
    if started:
        walk(z.root)
    if inside != expect:
        out.append(('active-set', f'states entered once more than exited {sorted(inside)} but current_state() describes {sorted(expect)}'))
    if not intro:
        return out
    parts = intro.split(' AND:')[0].split(';')
    for p in parts:
        if not p or not p.startswith('M'):
            if p.startswith('R:') and started:
                d = dict(kv.split('=') for kv in p[2:].split('|') if kv)
                ar = sorted(int(v) for v in d['ar'].split(',') if v)
                an = sorted(int(v) for v in d['an'].split(',') if v)
                lr = sorted(int(v) for v in d['lr'].split(',') if v)
                ln = sorted(int(v) for v in d['ln'].split(',') if v)
                exp_ar = sorted(expect - {0})
                rootm = z.root
                exp_an = sorted(s.sid for s in rootm.states if s.sid in expect)
                exp_lr = sorted(s.sid for m in z.machines() for s in m.states)
                exp_ln = sorted(s.sid for s in rootm.states)
                if ar != exp_ar:
                    out.append(('visit', f'visit<active_recursive> saw {ar}, active set is {exp_ar}'))
                if an != exp_an:
                    out.append(('visit', f'visit<active_non_recursive> saw {an}, expected {exp_an}'))
                if lr != exp_lr:
                    out.append(('visit', f'visit<all_recursive> saw {lr}, expected {exp_lr}'))
                if ln != exp_ln:
                    out.append(('visit', f'visit<all_non_recursive> saw {ln}, expected {exp_ln}'))
            continue
        head, rest = p.split(':', 1)
        mid = int(head[1:])
        m = [mm for mm in z.machines() if mm.mid == mid][0]
        m_inside = m.own_sid in expect
        if ctx.cfg in ('m', 'mf', 'mc'):
            act = {int(t[1:]) for t in rest.split(',') if t.startswith('a')}
            # is_state_active<S>() asked on machine m for each of its states
            exp = {s.sid for s in m.states if s.sid in expect} if m_inside else None
            if started and m_inside and act != exp:
                out.append(('is_state_active', f'machine {m.name}: is_state_active true for {sorted(act)}, active set {sorted(exp)}'))
        else:
            segs = rest.split('|')
            vis = [int(v) for v in segs[0][1:].split(',') if v] if segs[0].startswith('v') else []
            byid = [int(v) for v in segs[1][1:].split(',') if v] if len(segs) > 1 and segs[1].startswith('i') else []
            exp_by = [next((s.sid for s in m.states if s.lib_id == i), -9) for i in range(len(m.states))]
            if byid != exp_by:
                out.append(('get_state_by_id', f'machine {m.name}: get_state_by_id gives sids {byid}, documented numbering gives {exp_by}'))
            if started and m_inside:
                # visit_current_states: the active states of m and, through a submachine, its active substates
                def below(mm):
                    r = []
                    ids = [int(v) for v in f['machines'][mm.mid]['a'].split(',')]
                    for i in ids:
                        s = [q for q in mm.states if q.lib_id == i]
                        if not s:
                            continue
                        r.append(s[0].sid)
                        if s[0].kind == 'sub':
                            r.extend(below(s[0].sub))
                    return r
                if sorted(vis) != sorted(below(m)):
                    out.append(('visit_current_states', f'machine {m.name}: visitor saw {sorted(vis)}, active states below it {sorted(below(m))}'))
    return out


ORACLES.update({'C08': o_C08, 'C09': o_C09, 'C03': o_C03})
STATE_ORACLES = {'C03': s_C03}
