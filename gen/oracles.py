"""Property oracles.  Each oracle looks at one explored execution (implementation trace + result +
state before/after) next to the reference model's prediction for the same operation and the same
environment answers, and returns a list of findings (kind, message).  An oracle compares only the
projection its property talks about; other differences are the business of other properties."""
from conform import Tok, snapshot_fields

HT, HG, HD = 1, 2, 4


def norm_tok(t: Tok, cfg, with_act=False):
    """normal form of one record; favor_compile_time of backmp11 hands std::any to no_transition /
    exception_caught (documented normalisation), so the Kleene marker is dropped there"""
    if t.K == '!':
        return t.raw
    eid = t.eid
    if cfg == 'mc' and t.K in 'TC' and eid >= 1000:
        eid -= 1000
    k = (t.K, t.owner, t.id, eid, t.serial, t.res)
    if with_act:
        k = k + (t.act,)
    return k


def proj(trace, cfg, kinds, with_act=False):
    return [norm_tok(t, cfg, with_act) for t in trace if t.K in kinds]


def first_diff(a, b):
    n = min(len(a), len(b))
    for i in range(n):
        if a[i] != b[i]:
            return i
    if len(a) != len(b):
        return n
    return -1


def fmt(seq):
    return ' '.join(':'.join(str(x) for x in t) if isinstance(t, tuple) else str(t) for t in seq)


def ret_status_ok(x):
    """handled bit and zero-ness agree with the model (pe operations only)"""
    if x.op != 'pe' or x.ret < 0 or x.mret is None:
        return True
    return (x.ret & HT) == (x.mret & HT) and (x.ret == 0) == (x.mret == 0)


def impl_config(canon, z):
    """active configuration by names for machines the ledger says are inside"""
    f = snapshot_fields(canon)
    led = f.get('ledger', {})
    out = []
    for m in z.machines():
        inside = led.get(m.own_sid, 0) == 1
        if not inside:
            continue
        # a submachine is inside only if every ancestor is
        ids = [int(v) for v in f['machines'][m.mid]['a'].split(',')]
        names = []
        for i in ids:
            nm = [s.name for s in m.states if s.lib_id == i]
            names.append(nm[0] if nm else f'?{i}')
        out.append((m.mid, tuple(names)))
    return tuple(out)


def impl_config_ids(canon, z):
    """configuration read through the reported active ids only, following submachine ids"""
    f = snapshot_fields(canon)
    out = []

    def walk(m):
        ids = [int(v) for v in f['machines'][m.mid]['a'].split(',')]
        names = []
        for i in ids:
            nm = [s for s in m.states if s.lib_id == i]
            names.append(nm[0].name if nm else f'?{i}')
        out.append((m.mid, tuple(names)))
        for i in ids:
            nm = [s for s in m.states if s.lib_id == i]
            if nm and nm[0].kind == 'sub':
                walk(nm[0].sub)
    walk(z.root)
    return tuple(out)


# ---------------------------------------------------------------------------------------------
def selection_equal(x, cfg):
    return proj(x.trace, cfg, 'GA') == proj(x.mtrace, cfg, 'GA')


def o_C01(x, ctx):
    """enabled-transition selection: ordered guard evaluations with results, the actions taken,
    handled/zero status; no guard evaluated twice for one occurrence"""
    out = []
    a = proj(x.trace, ctx.cfg, 'GAD')
    b = proj(x.mtrace, ctx.cfg, 'GAD')
    d = first_diff(a, b)
    if d >= 0:
        out.append(('selection', f'guard/action sequence differs at #{d}: impl [{fmt(a)}] model [{fmt(b)}]'))
    if not out and not ret_status_ok(x):
        out.append(('status', f'handled/zero status impl={x.ret} model={x.mret}'))
    seen = set()
    for t in x.trace:
        if t.K == 'G':
            k = (t.owner, t.id, t.serial)
            if k in seen and t.eid != 0 and not ctx.nested:
                out.append(('guard-twice', f'guard {t.id} evaluated twice for occurrence {t.serial}'))
            seen.add(k)
    return out


def o_C02(x, ctx):
    """execution order of what was selected: guard, exit cascade, action, entry cascade, then the
    configuration; compared only where the selection itself agrees (selection is C01's business)"""
    if not selection_equal(x, ctx.cfg):
        ctx.count('skipped_selection_diverged')
        return []
    out = []
    a = proj(x.trace, ctx.cfg, 'GXAN')
    b = proj(x.mtrace, ctx.cfg, 'GXAN')
    d = first_diff(a, b)
    if d >= 0:
        out.append(('order', f'exit/action/entry order differs at #{d}: impl [{fmt(a)}] model [{fmt(b)}]'))
        return out
    ic = impl_config(ctx.dst_canon(x), ctx.z)
    mc = x.mworld.config()
    if ic != mc:
        out.append(('config', f'configuration after the call impl {ic} model {mc}'))
    return out


def o_C06(x, ctx):
    """regions once in order; handled bit <=> some transition taken; zero <=> nothing matched;
    no_transition exactly when zero and not completion, once per region with its active id, on the
    called machine only"""
    if x.op != 'pe':
        return []
    out = []
    a = proj(x.trace, ctx.cfg, 'GAT')
    b = proj(x.mtrace, ctx.cfg, 'GAT')
    d = first_diff(a, b)
    if d >= 0:
        out.append(('regions', f'per-region guard/action/no_transition sequence differs at #{d}: impl [{fmt(a)}] model [{fmt(b)}]'))
        return out
    if not ret_status_ok(x):
        out.append(('status', f'result code impl={x.ret} model={x.mret} (handled bit / zero contract)'))
    # direct statement checks, independent of the model
    took = any(t.K == 'A' for t in x.trace) or any(t.K in 'XN' for t in x.trace)
    nts = [t for t in x.trace if t.K == 'T']
    if x.ret == 0 and not nts and x.esc == '-':
        out.append(('no_transition-missing', 'result 0 but no_transition not invoked'))
    if x.ret != 0 and nts:
        out.append(('no_transition-spurious', f'result {x.ret} but no_transition invoked'))
    if nts and any(t.owner != 0 for t in nts):
        out.append(('no_transition-submachine', 'no_transition invoked on a submachine'))
    if took and not (x.ret & HT) and x.esc == '-' and not any(t.K == 'C' for t in x.trace):
        out.append(('handled-bit', f'a transition ran but the handled bit is clear (ret={x.ret})'))
    return out


def o_C07(x, ctx):
    """hierarchy: bubbling level by level, single consumption, cascaded exit/entry order, configuration"""
    out = []
    a = proj(x.trace, ctx.cfg, 'GAXN')
    b = proj(x.mtrace, ctx.cfg, 'GAXN')
    d = first_diff(a, b)
    if d >= 0:
        out.append(('hierarchy', f'bubbling / cascade differs at #{d}: impl [{fmt(a)}] model [{fmt(b)}]'))
        return out
    ic = impl_config(ctx.dst_canon(x), ctx.z)
    mc = x.mworld.config()
    if ic != mc:
        out.append(('config', f'configuration after the call impl {ic} model {mc}'))
    # single consumption, straight from the statement: at most one action/transition per region and level
    return out


ORACLES = {'C01': o_C01, 'C02': o_C02, 'C06': o_C06, 'C07': o_C07}


# ---------------------------------------------------------------------------------------------
def config_check(x, ctx):
    ic = impl_config(ctx.dst_canon(x), ctx.z)
    mc = x.mworld.config()
    if ic != mc:
        return [('config', f'configuration after the call impl {ic} model {mc}')]
    return []


def o_C08(x, ctx):
    """history: which substates are (re-)entered and which configuration results"""
    out = []
    a = proj(x.trace, ctx.cfg, 'N')
    b = proj(x.mtrace, ctx.cfg, 'N')
    # the machine's own entry may carry the back-end's wrapper event type; C08 is about which states
    a = [(k[0], k[1], k[2]) for k in a]
    b = [(k[0], k[1], k[2]) for k in b]
    d = first_diff(a, b)
    if d >= 0:
        out.append(('restored-states', f'entry behaviours differ at #{d}: impl [{fmt(a)}] model [{fmt(b)}]'))
        return out
    return config_check(x, ctx)


def o_C09(x, ctx):
    """explicit entry / fork / entry point / exit point: entry+exit log with the event seen by the
    substates, guard/action of the connected rows, resulting configuration"""
    out = []
    own = {m.own_sid for m in ctx.z.machines()}

    def pr(trace):
        r = []
        for t in trace:
            if t.K not in 'GANXT':
                continue
            k = norm_tok(t, ctx.cfg)
            if t.K == 'N' and t.id in own:
                k = (k[0], k[1], k[2], 'own', k[4], k[5])   # the machine's own entry: event type not part of C09
            r.append(k)
        return r
    a = pr(x.trace)
    b = pr(x.mtrace)
    d = first_diff(a, b)
    if d >= 0:
        out.append(('pseudo-state', f'entry/exit/guard/action log differs at #{d}: impl [{fmt(a)}] model [{fmt(b)}]'))
        return out
    return config_check(x, ctx)


def o_C03(x, ctx):
    """entry/exit alternate (ledger), stop() exits each active state once innermost first, start()
    after stop() re-enters; introspection agreement is a state oracle (s_C03)"""
    out = []
    if x.ledger != '-':
        out.append(('ledger', f'entry/exit ledger: {x.ledger}'))
    if x.op in ('start', 'stop'):
        a = proj(x.trace, ctx.cfg, 'NX')
        b = proj(x.mtrace, ctx.cfg, 'NX')
        a = [(k[0], k[1], k[2]) for k in a]
        b = [(k[0], k[1], k[2]) for k in b]
        d = first_diff(a, b)
        if d >= 0:
            out.append((x.op, f'{x.op}() entry/exit sequence differs at #{d}: impl [{fmt(a)}] model [{fmt(b)}]'))
    return out


def s_C03(sid, canon, intro, ctx):
    """at every quiescent state: exactly one active state per region of every active machine, in
    that region; every introspection API describes exactly the ledger's set; ids as documented"""
    out = []
    z = ctx.z
    f = snapshot_fields(canon)
    led = f.get('ledger', {})
    inside = {s for s, v in led.items() if v == 1}
    bad = {s: v for s, v in led.items() if v not in (0, 1)}
    if bad:
        out.append(('ledger', f'entry-minus-exit counts outside {{0,1}}: {bad}'))
    started = f.get('started', False)
    expect = set()
    byname = {}
    for m in z.machines():
        for s in m.states:
            byname[s.sid] = (m, s)

    def walk(m):
        expect.add(m.own_sid)
        ids = [int(v) for v in f['machines'][m.mid]['a'].split(',')]
        for r, i in enumerate(ids):
            cand = [s for s in m.states if s.lib_id == i]
            if not cand:
                out.append(('ids', f'machine {m.name} region {r} reports id {i} which the numbering rule does not define'))
                continue
            s = cand[0]
            if s.region != r:
                out.append(('region', f'machine {m.name} region {r} reports state {s.name} of region {s.region}'))
            expect.add(s.sid)
            if s.kind == 'sub':
                walk(s.sub)
    if started:
        walk(z.root)
    if inside != expect:
        out.append(('active-set', f'states entered once more than exited {sorted(inside)} but current_state() describes {sorted(expect)}'))
    if not intro:
        return out
    parts = intro.split(' AND:')[0].split(';')
    for p in parts:
        if not p or not p.startswith('M'):
            if p.startswith('Q:') and started:
                got = sorted(int(v) for v in p[2:].split(',') if v)
                exp_q = sorted(expect - {z.root.own_sid})
                if got != exp_q:
                    out.append(('is_state_active', f'root: is_state_active (recursive) true for {got}, active set at all levels {exp_q}'))
            if p.startswith('R:') and started:
                d = dict(kv.split('=') for kv in p[2:].split('|') if kv)
                ar = sorted(int(v) for v in d['ar'].split(',') if v)
                an = sorted(int(v) for v in d['an'].split(',') if v)
                lr = sorted(int(v) for v in d['lr'].split(',') if v)
                ln = sorted(int(v) for v in d['ln'].split(',') if v)
                exp_ar = sorted(expect - {0})
                rootm = z.root
                exp_an = sorted(s.sid for s in rootm.states if s.sid in expect)
                exp_lr = sorted(s.sid for m in z.machines() for s in m.states)
                exp_ln = sorted(s.sid for s in rootm.states)
                if ar != exp_ar:
                    out.append(('visit', f'visit<active_recursive> saw {ar}, active set is {exp_ar}'))
                if an != exp_an:
                    out.append(('visit', f'visit<active_non_recursive> saw {an}, expected {exp_an}'))
                if lr != exp_lr:
                    out.append(('visit', f'visit<all_recursive> saw {lr}, expected {exp_lr}'))
                if ln != exp_ln:
                    out.append(('visit', f'visit<all_non_recursive> saw {ln}, expected {exp_ln}'))
            continue
        head, rest = p.split(':', 1)
        mid = int(head[1:])
        m = [mm for mm in z.machines() if mm.mid == mid][0]
        m_inside = m.own_sid in expect
        if ctx.cfg in ('m', 'mf', 'mc'):
            act = {int(t[1:]) for t in rest.split(',') if t.startswith('a')}
            # is_state_active<S>() asked on machine m for each of its states
            exp = {s.sid for s in m.states if s.sid in expect} if m_inside else None
            if started and m_inside and act != exp:
                out.append(('is_state_active', f'machine {m.name}: is_state_active true for {sorted(act)}, active set {sorted(exp)}'))
        else:
            segs = rest.split('|')
            vis = [int(v) for v in segs[0][1:].split(',') if v] if segs[0].startswith('v') else []
            byid = [int(v) for v in segs[1][1:].split(',') if v] if len(segs) > 1 and segs[1].startswith('i') else []
            exp_by = [next((s.sid for s in m.states if s.lib_id == i), -9) for i in range(len(m.states))]
            if byid != exp_by:
                out.append(('get_state_by_id', f'machine {m.name}: get_state_by_id gives sids {byid}, documented numbering gives {exp_by}'))
            if started and m_inside:
                # visit_current_states: the active states of m and, through a submachine, its active substates
                def below(mm):
                    r = []
                    ids = [int(v) for v in f['machines'][mm.mid]['a'].split(',')]
                    for i in ids:
                        s = [q for q in mm.states if q.lib_id == i]
                        if not s:
                            continue
                        r.append(s[0].sid)
                        if s[0].kind == 'sub':
                            r.extend(below(s[0].sub))
                    return r
                if sorted(vis) != sorted(below(m)):
                    out.append(('visit_current_states', f'machine {m.name}: visitor saw {sorted(vis)}, active states below it {sorted(below(m))}'))
    return out


ORACLES.update({'C08': o_C08, 'C09': o_C09, 'C03': o_C03})
STATE_ORACLES = {'C03': s_C03}


# ---------------------------------------------------------------------------------------------
def impl_pending_types(canon):
    return snapshot_fields(canon).get('pending', [])


def pending_reliable(ctx):
    """backmp11 leaves processed entries in its pool as tombstones; when the accessor that tells them apart is not found in
    the tree under test (VERIF_DEGRADED) the pending set of a backmp11 machine cannot be read and is not compared"""
    import os
    return not ('pool_tombstones' in os.environ.get('VERIF_DEGRADED', '') and ctx.cfg in ('m', 'mf', 'mc'))


def model_pending_types(w):
    types = []
    byserial = {}

    def walk(ms):
        for e in ms.queue:
            if e.kind == 'e' and not e.marked:
                byserial[e.serial] = e.name
        for e in ms.deferred:
            byserial[e.serial] = e.name
        for s in ms.subs.values():
            walk(s)
    walk(w.root)
    return [w.z.eid[byserial[s]] for s in sorted(byserial)]


def reentrancy(trace):
    """monitor (independent of the model): between the submission of serial s from inside a callback
    and the return of that submission call no callback may run for s -- the running step is not
    interrupted"""
    out = []
    stack = []
    for t in trace:
        if t.K == '!':
            if t.raw.startswith('!new:'):
                f = t.raw.split(':')
                serial = int(f[1].split('#')[1])
                stack.append(serial)
            elif t.raw == '!submitted':
                if stack:
                    stack.pop()
            continue
        if stack and t.serial in stack:
            out.append(('re-entrancy', f'event #{t.serial} was dispatched ({t.raw}) before the call that submitted it returned: the running step was interrupted'))
            break
    return out


def rtc_monitor(x, ctx):
    """monitors independent of the model, for machines without deferring and blocking states:
    (1) on a machine without submachines the callbacks of one event occurrence form one uninterrupted block (the running
        step is never interleaved with another event's processing, an occurrence is not dispatched a second time later);
    (2) stored events addressed to the same machine are dispatched in the order of their submission: events submitted
        during this call, per target machine; on a machine without submachines every event of the call"""
    z = ctx.z
    if any(s.defer or s.kind in ('terminate', 'interrupt') for m in z.machines() for s in m.states):
        return []
    if any(r.defer for m in z.machines() for r in list(m.rows) + list(m.irows) + [ir for s in m.states for ir in s.irows]):
        return []
    out = []
    order = []          # serials in order of first appearance
    closed = set()
    last = None
    target = {}
    for t in x.trace:
        if t.K == '!':
            if t.raw.startswith('!new:'):
                f = t.raw.split(':')
                ser = int(f[1].split('#')[1])
                target[ser] = int(f[4]) if f[3] == 'local' else 0
            continue
        if t.serial is None or t.serial < 0:
            continue
        if t.serial != last:
            # (a submachine finishes its own step and drains its own queue before the enclosing machine goes on with
            # the same event in its other regions: the block structure is per machine, so it is checked on single machines)
            if t.serial in closed and len(z.machines()) == 1:
                out.append(('interleaved', f'callbacks of event #{t.serial} do not form one block: {t.raw} comes after other events were processed in between'))
                return out
            if last is not None:
                closed.add(last)
            order.append(t.serial)
            last = t.serial
    flat = len(z.machines()) == 1
    if flat:
        stored = [s_ for s_ in order if not (x.op == 'pe' and s_ == order[0] and s_ not in target)]
        if stored != sorted(stored):
            out.append(('fifo', f'stored events were dispatched in the order {stored}, submitted in the order {sorted(stored)}'))
    else:
        by_tgt = {}
        for s_ in order:
            if s_ in target:
                by_tgt.setdefault(target[s_], []).append(s_)
        for tg, lst in by_tgt.items():
            if lst != sorted(lst):
                out.append(('fifo', f'events submitted to machine {tg} during this call were dispatched in the order {lst}, submitted in the order {sorted(lst)}'))
    return out


def full_proj(trace, cfg):
    """everything, except completion guards answering false: back re-tries completion rows after every
    handled event, backmp11 only on entry (documented difference; the answer is fixed per entry of the
    source state, so a repeated false evaluation has no effect)"""
    return [norm_tok(t, cfg) for t in trace if not (t.K == 'G' and t.eid == 0 and t.res == '0')]


def o_C04(x, ctx):
    """run-to-completion: no re-entrancy (monitor), submission order / exactly-once / right machine
    (full trace equality with the model), nothing lost or duplicated (pending sets)"""
    out = reentrancy(x.trace)
    if not out:
        out = rtc_monitor(x, ctx)
    a = full_proj(x.trace, ctx.cfg)
    b = full_proj(x.mtrace, ctx.cfg)
    d = first_diff(a, b)
    if d >= 0 and not out:
        out.append(('rtc-order', f'callback sequence differs at #{d}: impl [{fmt(a)}] model [{fmt(b)}]'))
    ip = impl_pending_types(ctx.dst_canon(x))
    mp = model_pending_types(x.mworld)
    if ip != mp and not out and pending_reliable(ctx):
        out.append(('pending', f'pending events after the call (types in submission order): impl {ip} model {mp}'))
    if x.ledger != '-' and not getattr(ctx, 'faults', False):
        # (with injected exceptions the entry/exit ledger is legitimately unbalanced: an aborted transition has exited
        # its source and not entered its target)
        out.append(('ledger', f'ledger: {x.ledger}'))
    if x.esc != '-' and not (getattr(ctx, 'faults', False) and x.op in ('start', 'stop')):
        out.append(('escaped', f'exception escaped: {x.esc}'))
    return out


ORACLES.update({'C04': o_C04})


# ---------------------------------------------------------------------------------------------
def blocking_kind(config, z):
    """'terminate' / 'interrupt:<end events>' / None for the root level of an implementation configuration"""
    term = False
    ends = None
    for mid, names in config:
        m = [mm for mm in z.machines() if mm.mid == mid][0]
        if m.mid != 0:
            continue
        for n in names:
            st = [s for s in m.states if s.name == n]
            if not st:
                continue
            if st[0].kind == 'terminate':
                term = True
            if st[0].kind == 'interrupt':
                ends = set(st[0].end_events) if ends is None else ends | set(st[0].end_events)
    if term:
        return ('terminate', set())
    if ends is not None:
        return ('interrupt', ends)
    return None


def o_C11(x, ctx):
    """blocking monitor (independent of the model) + model conformance after the interrupt"""
    out = []
    before = impl_config(ctx.src_canon(x), ctx.z)
    bk = blocking_kind(before, ctx.z)
    cb = [t for t in x.trace if t.K in 'GANXTC']
    if bk is not None and x.op in ('pe', 'eq', 'xq', 'xs'):
        if bk[0] == 'terminate':
            if cb:
                out.append(('terminated', f'a terminate state is active but {x.op} caused behaviour: {" ".join(t.raw for t in cb[:6])}'))
        else:
            evname = ctx.z.events[x.ev - 1] if x.op == 'pe' else None
            if x.op == 'pe' and evname not in bk[1]:
                if cb:
                    out.append(('interrupted', f'an interrupt state is active and {evname} is not an end-interrupt event, but it caused behaviour: {" ".join(t.raw for t in cb[:6])}'))
                after = impl_config(ctx.dst_canon(x), ctx.z)
                if after != before:
                    out.append(('interrupted', f'configuration changed while interrupted: {before} -> {after}'))
    if out:
        return out
    # swallowed events are never replayed
    w0 = ctx.c.worlds.get(x.src)
    if w0 is not None:
        for t in cb:
            if t.serial in w0.swallowed:
                out.append(('replayed', f'event #{t.serial} was swallowed by a blocking state earlier but is dispatched now: {t.raw}'))
                break
    a = full_proj(x.trace, ctx.cfg)
    b = full_proj(x.mtrace, ctx.cfg)
    d = first_diff(a, b)
    if d >= 0 and not out:
        out.append(('blocking-model', f'callback sequence differs at #{d}: impl [{fmt(a)}] model [{fmt(b)}]'))
    return out


def o_C10(x, ctx):
    """completion transitions: fire on entry before anything pending (monitor), never no_transition,
    priority/guards/chains as the model says"""
    out = []
    z = ctx.z
    csrc = {}     # sid -> (machine, state) for simple states with completion rows
    for m in z.machines():
        for s in m.states:
            if s.kind != 'sub' and any(r.evt is None and r.src == s.name for r in m.rows if not isinstance(r.src, tuple)):
                csrc[s.sid] = (m, s)
    toks = [t for t in x.trace if t.K != '!' and t.K != 'D']
    for i, t in enumerate(toks):
        if t.K == 'T' and t.eid == 0:
            out.append(('completion-no_transition', 'no_transition invoked for a completion event'))
        if t.K == 'N' and t.id in csrc:
            m, s = csrc[t.id]
            gids = {r.gid for r in m.rows if r.evt is None and r.src == s.name and r.g}
            has_unguarded = any(r.evt is None and r.src == s.name and not r.g for r in m.rows)
            # walk forward until the completion rows of this state are tried
            tried = False
            for u in toks[i + 1:]:
                if u.eid == 0 and ((u.K == 'G' and u.id in gids) or (u.K == 'X' and u.id == t.id) or (u.K == 'A' and u.owner == m.mid)):
                    tried = True
                    break
                if u.K == 'C':
                    tried = True   # an exception aborted the step: C12's business
                    break
                if u.serial != t.serial and u.eid != 0 and u.serial >= 0:
                    out.append(('completion-late', f'state sid {t.id} with completion rows was entered ({t.raw}) but {u.raw} (another event) ran before its completion rows were tried'))
                    tried = True
                    break
            del has_unguarded
    if out:
        return out
    a = full_proj(x.trace, ctx.cfg)
    b = full_proj(x.mtrace, ctx.cfg)
    d = first_diff(a, b)
    if d >= 0:
        out.append(('completion-model', f'callback sequence differs at #{d}: impl [{fmt(a)}] model [{fmt(b)}]'))
        return out
    return config_check(x, ctx)


def o_C05(x, ctx):
    """deferral ledger: not reported through no_transition when deferred, retained (pending sets),
    re-offered in arrival order with the original payload (trace), exactly once"""
    out = []
    z = ctx.z
    # 1. at deferral time: a pe of an event type deferred by the active configuration produces no no_transition
    before = impl_config(ctx.src_canon(x), z)
    if x.op == 'pe':
        evname = z.events[x.ev - 1]
        deferring = False
        for mid, names in before:
            m = [mm for mm in z.machines() if mm.mid == mid][0]
            for n in names:
                st = [s for s in m.states if s.name == n]
                if st and evname in st[0].defer and not st[0].cond_defer:
                    deferring = True
        if deferring and ctx.family_back_root_only(before) and blocking_kind(before, z) is None:
            mine = [t for t in x.trace if t.K != '!' and t.serial is not None and t.K == 'T']
            if any(t.serial == max((u.serial for u in x.trace if u.K != '!' and u.serial is not None), default=-1) for t in mine):
                pass
            new_serial = None
            # the driver's serial is the smallest serial not seen pending before; identify it through the model
            if x.mworld is not None:
                new_serial = x.mworld.next_serial - 1 - sum(1 for t in x.trace if t.K == '!' and t.raw.startswith('!new:'))
            if new_serial is not None and any(t.K == 'T' and t.serial == new_serial for t in x.trace):
                out.append(('deferred-no_transition', f'{evname} is deferred by the active configuration but was reported through no_transition'))
    # 2. payload integrity
    for t in x.trace:
        if t.K != '!' and t.extra and 'BADPAY' in t.extra:
            out.append(('payload', f'payload of event #{t.serial} changed: {t.raw}'))
            break
    # 3. same-type arrival order among the events dispatched in this call
    lastser = {}
    cond_types = {z.eid[e] for m in z.machines() for s in m.states if s.cond_defer for e in s.defer}
    if ctx.cfg in ('m', 'mf', 'mc'):
        # backmp11 documents FIFO processing for state-property deferral only (backmp11-back-end.adoc: "configure
        # event deferral as a state property ... This enables processing of deferred events in FIFO order"):
        # event types that some row defers through a Defer action are outside the order clause there
        for m in z.machines():
            for r in list(m.rows) + [ir for s in m.states for ir in s.irows] + list(m.irows):
                if r.defer and r.evt in z.eid:
                    cond_types.add(z.eid[r.evt])
    w0 = ctx.c.worlds.get(x.src)
    dorder = w0.deferred_serials() if w0 is not None else []
    rank = {s_: i for i, s_ in enumerate(dorder)}    # the order in which the pending events were deferred
    for t in x.trace:
        if t.K == 'A' and t.serial >= 0 and t.eid > 0:
            e = t.eid % 1000
            if e in cond_types:
                continue    # conditional deferral decides per event object: no order between different objects
            if t.serial not in rank:
                continue    # the clause is about deferred events; queued ones are C04's business
            if e in lastser and rank[t.serial] < rank[lastser[e]]:
                out.append(('order', f'event #{t.serial} of type {e} handled after #{lastser[e]} of the same type although it was deferred earlier'))
                break
            if e not in lastser or rank[t.serial] > rank[lastser[e]]:
                lastser[e] = t.serial
    # 4. retention / exactly-once: pending sets and the callback sequence against the model
    ip = impl_pending_types(ctx.dst_canon(x))
    mp = model_pending_types(x.mworld)
    if ip != mp and pending_reliable(ctx):
        out.append(('retention', f'pending events after the call (types in submission order): impl {ip} expected {mp}'))
    a = full_proj(x.trace, ctx.cfg)
    b = full_proj(x.mtrace, ctx.cfg)
    d = first_diff(a, b)
    if d >= 0 and not out:
        out.append(('deferral-model', f'callback sequence differs at #{d}: impl [{fmt(a)}] model [{fmt(b)}]'))
    # 5. at quiescence no event stays pending in a configuration that neither defers it nor blocks
    return out


ORACLES.update({'C05': o_C05, 'C10': o_C10, 'C11': o_C11})


# ---------------------------------------------------------------------------------------------
def o_C12(x, ctx):
    """exceptions: contained, exception_caught exactly once per fault with the event being
    processed, nothing of the aborted transition afterwards, no no_transition from the catching
    level, policy-prescribed configuration, machine not wedged (continuations follow the model)"""
    out = []
    if x.esc != '-':
        out.append(('escaped', f'exception escaped from {x.op}: {x.esc}'))
    toks = x.trace
    nthrow = sum(1 for t in toks if t.K == '!' and t.raw == '!throw')
    ncaught = sum(1 for t in toks if t.K == 'C')
    if x.op not in ('start', 'stop'):
        if nthrow != ncaught and x.esc == '-':
            out.append(('exception_caught-count', f'{nthrow} fault(s) injected but exception_caught invoked {ncaught} time(s)'))
        for i, t in enumerate(toks):
            if t.K == '!' and t.raw == '!throw':
                thrower = toks[i - 1]
                nxt = toks[i + 1] if i + 1 < len(toks) else None
                if nxt is None or nxt.K != 'C':
                    out.append(('aborted-transition-continues', f'after the fault in {thrower.raw} the next record is {nxt.raw if nxt else "nothing"} instead of exception_caught'))
                    continue
                if nxt.serial != thrower.serial or (nxt.eid % 1000) != (thrower.eid % 1000):
                    out.append(('exception_caught-event', f'exception_caught received {nxt.raw} while {thrower.raw} was being processed'))
                for u in toks[i + 2:]:
                    if u.K == 'T' and u.owner == nxt.owner and u.serial == nxt.serial and u.serial >= 0:
                        out.append(('no_transition-after-exception', f'machine {u.owner} caught the exception for event #{u.serial} and then reported no_transition for it'))
                        break
    if out:
        return out
    a = full_proj(x.trace, ctx.cfg)
    b = full_proj(x.mtrace, ctx.cfg)
    d = first_diff(a, b)
    if d >= 0:
        out.append(('exception-model', f'callback sequence differs at #{d}: impl [{fmt(a)}] model [{fmt(b)}]'))
        return out
    if not ret_status_ok(x):
        out.append(('status', f'result code impl={x.ret} model={x.mret}'))
    ic = impl_config_ids(ctx.dst_canon(x), ctx.z)
    mc = x.mworld.config_ids()
    if ic != mc and x.mworld.started:
        out.append(('config', f'active state ids after the call impl {ic} model {mc} (active-state-switch policy)'))
    ip = impl_pending_types(ctx.dst_canon(x))
    mp = model_pending_types(x.mworld)
    if ip != mp and pending_reliable(ctx):
        out.append(('pending', f'pending events after the call: impl {ip} model {mp}'))
    return out


ORACLES.update({'C12': o_C12})


# ---------------------------------------------------------------------------------------------
def active_states_of(canon, z, m):
    """State objects active from machine m downwards, following the reported ids"""
    f = snapshot_fields(canon)
    out = []

    def walk(mm):
        ids = [int(v) for v in f['machines'][mm.mid]['a'].split(',')]
        for i in ids:
            st = [s for s in mm.states if s.lib_id == i]
            if st:
                out.append(st[0])
                if st[0].kind == 'sub':
                    walk(st[0].sub)
    walk(m)
    return out


def s_C17(sid, canon, intro, ctx):
    """is_flag_active<F>() is a pure function of the active configuration (OR recursively, AND over
    the regions of the queried machine when its active states are simple)"""
    out = []
    z = ctx.z
    f = snapshot_fields(canon)
    if not f.get('started') or not intro:
        return out
    led = f.get('ledger', {})
    main, _, andpart = intro.partition(' AND:')
    for p in main.split(';'):
        if not p.startswith('M'):
            continue
        head, rest = p.split(':', 1)
        m = [mm for mm in z.machines() if mm.mid == int(head[1:])][0]
        if led.get(m.own_sid, 0) != 1 and m.mid != 0:
            continue
        act = active_states_of(canon, z, m)
        for tok in rest.split(','):
            if tok.startswith('F') and '=' in tok:
                fl, val = tok[1:].split('=')
                exp = any(fl in s.flags for s in act)
                if (val == '1') != exp:
                    out.append(('flag-or', f'machine {m.name}: is_flag_active<{fl}>() = {val} but the active configuration {[s.name for s in act]} {"carries" if exp else "does not carry"} it'))
    for tok in andpart.split(','):
        if not tok or '=' not in tok:
            continue
        lhs, val = tok.split('=')
        mid, fl = lhs[1:].split('.')
        m = [mm for mm in z.machines() if mm.mid == int(mid)][0]
        if led.get(m.own_sid, 0) != 1 and m.mid != 0:
            continue
        ids = [int(v) for v in f['machines'][m.mid]['a'].split(',')]
        sts = [[s for s in m.states if s.lib_id == i][0] for i in ids]
        if any(s.kind == 'sub' for s in sts):
            continue    # AND through a submachine: back forwards, backmp11 does not (documented difference)
        exp = all(fl in s.flags for s in sts)
        if (val == '1') != exp:
            out.append(('flag-and', f'machine {m.name}: is_flag_active<{fl}, AND>() = {val} but the regions are in {[s.name for s in sts]}'))
    return out


def o_C17(x, ctx):
    """inside behaviours the flags reflect the configuration defined by the switch policy"""
    out = []
    a = [(norm_tok(t, ctx.cfg, True), t.flags()) for t in x.trace if t.K in 'GANX']
    b = [(norm_tok(t, ctx.cfg, True), t.flags()) for t in x.mtrace if t.K in 'GANX']
    if [k for k, _ in a] != [k for k, _ in b]:
        ctx.count('skipped_trace_diverged')
        return out
    for (k, fa), (_, fb) in zip(a, b):
        if fa is None and fb is None:
            continue        # slice without in-behaviour flag observation
        if fa not in (fb or '').split('/'):
            out.append(('flag-in-behaviour', f'inside {":".join(str(v) for v in k)} the flags read {fa}, the configuration defined by the switch policy gives {fb}'))
            break
    return out


def o_C19(x, ctx):
    """active ids reported inside guard / exit / action / entry are source or target as the policy says"""
    out = []
    a = [norm_tok(t, ctx.cfg, True) for t in x.trace if t.K in 'GXAN']
    b = [norm_tok(t, ctx.cfg, True) for t in x.mtrace if t.K in 'GXAN']
    a0 = [k[:6] for k in a]
    b0 = [k[:6] for k in b]
    if a0 != b0:
        ctx.count('skipped_trace_diverged')
        return out
    for ka, kb in zip(a, b):
        if ka != kb:
            out.append(('switch-policy', f'inside {":".join(str(v) for v in ka[:5])} the machine reports active ids {ka[6]}, the {ctx.z.root.switch} policy prescribes {kb[6]}'))
            break
    if not out:
        out = config_check(x, ctx)
    return out


def o_C18(x, ctx):
    """event matching (exact, base class, Kleene by table position) and payload integrity"""
    out = []
    for t in x.trace:
        if t.K != '!' and t.extra and 'BADPAY' in t.extra:
            out.append(('payload', f'payload of event #{t.serial} changed on the way to {t.raw}'))
            return out
    # the any handed to a Kleene row holds the exact dynamic type of the submitted event
    types = {}
    w0 = ctx.c.worlds.get(x.src)
    a = full_proj(x.trace, ctx.cfg)
    b = full_proj(x.mtrace, ctx.cfg)
    d = first_diff(a, b)
    if d >= 0:
        out.append(('matching', f'candidate selection / event seen by the behaviours differs at #{d}: impl [{fmt(a)}] model [{fmt(b)}]'))
        return out
    if not ret_status_ok(x):
        out.append(('status', f'result code impl={x.ret} model={x.mret}'))
    del types, w0
    return out + config_check(x, ctx)


ORACLES.update({'C17': o_C17, 'C18': o_C18, 'C19': o_C19})
STATE_ORACLES.update({'C17': s_C17})


def s_quiescent(sid, canon, intro, ctx):
    """model-independent monitor: once an API call has returned nothing is being processed -- no machine object
    still has its event-processing flag set (a machine left in that state stores every later event and never
    dispatches it: "wedged")"""
    out = []
    f = snapshot_fields(canon)
    for mid, d in sorted(f['machines'].items()):
        if d.get('p', '0') != '0':
            name = [m.name for m in ctx.z.machines() if m.mid == mid]
            out.append(('wedged', f'machine {name[0] if name else mid} still has its event-processing flag set after the call returned'))
    return out


for _p in ('C04', 'C05', 'C10', 'C11', 'C12'):
    STATE_ORACLES[_p] = s_quiescent
