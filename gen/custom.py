"""Runners for properties that are not judged execution-by-execution against the model: lock-step
differential exploration (C13, C14a, C19), tokenizer enumeration (C14b), copy / serialization
differentials (C15, C16), storage harness (C20)."""
import collections
import json
import os
import sys
import time
import traceback
from concurrent.futures import ProcessPoolExecutor

VERIF = os.path.dirname(os.path.dirname(os.path.abspath(__file__)))
sys.path.insert(0, os.path.join(VERIF, 'bin'))
import vbuild  # noqa
import desc  # noqa
import zoo as zoomod  # noqa
import known  # noqa
import lockstep  # noqa
import props as propsmod  # noqa

MAX_REPORTED = 6


def lockstep_job(job):
    pid, sl, tier, idx = job
    t0 = time.time()
    out = {'zoo': sl['zoo'], 'cfgs': sl.get('cfgs', []), 'slice': idx, 'findings': [], 'samples': []}
    peers = []
    try:
        z0 = zoomod.ZOO[sl['zoo']]
        zs = []
        args = []
        if sl.get('submits'):
            args += ['--submits', str(sl['submits'])]
        names = []
        if 'peers' in sl:
            for zn, cfg in sl['peers']:
                exe = vbuild.build_one(zn, cfg)
                peers.append(lockstep.Peer(f'{zn}/{cfg}', exe, args))
                zs.append(desc.for_family(zoomod.ZOO[zn], cfg))
                names.append(f'{zn}/{cfg}')
            sl = dict(sl)
            sl['cfgs'] = names
            out['cfgs'] = names
        else:
            for cfg in sl['cfgs']:
                exe = vbuild.build_one(sl['zoo'], cfg)
                peers.append(lockstep.Peer(cfg, exe, args))
                zs.append(desc.for_family(z0, cfg))
        ls = lockstep.LockStep(peers, zs, [c.split('/')[-1] for c in sl['cfgs']] if 'peers' in sl else sl['cfgs'], [tuple(o.split(':')) if ':' in o else (o, '0') for o in sl['ops']],
                               qbound=sl.get('qbound', 2), submits=sl.get('submits', 0), guards=sl.get('guards', -1),
                               n_menu=len(z0.menu), max_exec=sl.get('max_exec', 200000), deadline=sl.get('deadline'),
                               compare_ids=sl.get('compare_ids', False), act_in_trace=sl.get('act_in_trace', False))
        ls.ops = [(o, int(e)) for o, e in ls.ops]
        ls.run()
        out['stats'] = dict(ls.stats)
        out['closed'] = ls.closed
        out['cap'] = ls.cap
        out['findings'] = ls.findings
        out['samples'] = ls.samples
    except Exception as e:
        out['error'] = repr(e) + '\n' + traceback.format_exc()
    finally:
        for p in peers:
            p.close()
    out['wall'] = time.time() - t0
    return out


def run_lockstep(pid, tier, slices=None, write_evidence=True):
    spec = propsmod.PROPS[pid]
    t0 = time.time()
    if slices is None:
        slices = spec.get(tier) or spec['quick']
    pairs = set()
    for sl in slices:
        if 'peers' in sl:
            for zn, cfg in sl['peers']:
                pairs.add((zn, cfg))
            continue
        for cfg in sl['cfgs']:
            pairs.add((sl['zoo'], cfg))
    vbuild.build_many(sorted(pairs))
    rdir = os.path.join(VERIF, 'evidence', 'replays')
    os.makedirs(rdir, exist_ok=True)
    import glob
    if write_evidence:
        for old in glob.glob(os.path.join(rdir, f'{pid}-*.json')):
            os.remove(old)
    jobs = [(pid, sl, tier, i) for i, sl in enumerate(slices)]
    with ProcessPoolExecutor(max_workers=min(8, len(jobs))) as ex:
        results = list(ex.map(lockstep_job, jobs))
    errs = [r for r in results if 'error' in r]
    if errs:
        for r in errs:
            print(f'ERROR in lock-step slice {r["zoo"]}: {r["error"]}', file=sys.stderr)
        return 2
    kf = known.load()
    nviol = 0
    reported = 0
    known_seen = collections.Counter()
    known_what = {}
    for r in results:
        z = zoomod.ZOO[r['zoo']]
        shown = 0
        for f in r['findings']:
            v = {'property': pid, 'machine': r['zoo'], 'cfg': f['peers'][1], 'kind': f['kind'], 'msg': f['msg'], 'peers': f['peers'],
                 'history': f['history'], 'raw': f['raw'], 'classes': f['classes'], 'lockstep': True, 'model_flags': []}
            k = known.match(kf, v, z)
            if k is not None:
                known_seen[k['id']] += 1
                known_what[k['id']] = k['what']
                continue
            nviol += 1
            if shown < MAX_REPORTED:
                shown += 1
                reported += 1
                path = os.path.join(rdir, f'{pid}-ls-{r["zoo"]}-{reported}.json')
                with open(path, 'w') as fh:
                    json.dump(v, fh, indent=1)
                print(f'VIOLATION property={pid} replay={path}')
                print(f'  {r["zoo"]} {f["kind"]}: classes {f["classes"]}: {f["msg"][:500]}')
    for k in sorted(known_seen):
        print(f'KNOWN-FINDING: property={pid} {known_what[k]} [{k}; {known_seen[k]} executions]')
    execs = sum(r['stats'].get('executions', 0) for r in results)
    states = sum(r['stats'].get('states', 0) for r in results)
    samples = []
    for r in results:
        samples.extend(r['samples'][:1])
    ev = {
        'property_id': pid, 'tier': tier, 'seed': int(os.environ.get('VERIF_SEED', '0')), 'level': spec['level'],
        'coverage': {
            'states': states, 'transitions': execs, 'traces_validated_against_impl': execs * (max(len(r['cfgs']) for r in results) - 1),
            'evaluations': execs, 'distinct_nontrivial': sum(r['stats'].get('nontrivial', 0) for r in results),
            'rule': spec['rule'], 'samples': samples[:6], 'exhaustive': all(r['closed'] for r in results),
            'caps_hit': sorted(set(r['cap'] for r in results if r['cap'] != '-')),
            'per_slice': [{'zoo': r['zoo'], 'peers': r['cfgs'], 'closed': r['closed'], 'cap': r['cap'], 'wall': round(r['wall'], 2), 'stats': r['stats']} for r in results],
            'known_findings_matched': dict(known_seen),
        },
        'assumptions': ['the peers are driven with identical operations and identical environment answers keyed by semantic label',
                        'observations are normalised as described in gen/lockstep.py (names for ids unless compare_ids, completion guards answering false dropped)'],
        'wall_s': round(time.time() - t0, 2), 'violations': nviol,
    }
    if not write_evidence:
        return {'nviol': nviol, 'coverage': ev['coverage'], 'known': dict(known_seen)}
    with open(os.path.join(VERIF, 'evidence', f'{pid}.json'), 'w') as fh:
        json.dump(ev, fh, indent=1)
    print(f'{pid} {tier}: lock-step slices={len(results)} product-states={states} executions={execs} violations={nviol} '
          f'known={sum(known_seen.values())} exhaustive={ev["coverage"]["exhaustive"]} wall={ev["wall_s"]}s')
    return 1 if nviol else 0


RUNNERS = {'lockstep': run_lockstep}
