"""Runners for properties that are not judged execution-by-execution against the model: lock-step
differential exploration (C13, C14a, C19), tokenizer enumeration (C14b), copy / serialization
differentials (C15, C16), storage harness (C20)."""
import collections
import json
import os
import sys
import time
import traceback
from concurrent.futures import ProcessPoolExecutor

VERIF = os.path.dirname(os.path.dirname(os.path.abspath(__file__)))
sys.path.insert(0, os.path.join(VERIF, 'bin'))
import vbuild  # noqa
import desc  # noqa
import zoo as zoomod  # noqa
import known  # noqa
import lockstep  # noqa
import props as propsmod  # noqa

MAX_REPORTED = 6


def lockstep_job(job):
    pid, sl, tier, idx = job
    t0 = time.time()
    out = {'zoo': sl['zoo'], 'cfgs': sl.get('cfgs', []), 'slice': idx, 'findings': [], 'samples': []}
    peers = []
    try:
        z0 = zoomod.ZOO[sl['zoo']]
        zs = []
        args = []
        if sl.get('submits'):
            args += ['--submits', str(sl['submits'])]
        if sl.get('faults'):
            args += ['--faults', str(sl['faults'])]
        names = []
        if 'peers' in sl:
            for zn, cfg in sl['peers']:
                exe = vbuild.build_one(zn, cfg)
                peers.append(lockstep.Peer(f'{zn}/{cfg}', exe, args))
                zs.append(desc.for_family(zoomod.ZOO[zn], cfg))
                names.append(f'{zn}/{cfg}')
            sl = dict(sl)
            sl['cfgs'] = names
            out['cfgs'] = names
        else:
            for cfg in sl['cfgs']:
                exe = vbuild.build_one(sl['zoo'], cfg)
                peers.append(lockstep.Peer(cfg, exe, args))
                zs.append(desc.for_family(z0, cfg))
        ls = lockstep.LockStep(peers, zs, [c.split('/')[-1] for c in sl['cfgs']] if 'peers' in sl else sl['cfgs'], [tuple(o.split(':')) if ':' in o else (o, '0') for o in sl['ops']],
                               qbound=sl.get('qbound', 2), submits=sl.get('submits', 0) + sl.get('faults', 0), guards=sl.get('guards', -1),
                               n_menu=len(z0.menu), max_exec=sl.get('max_exec', 200000), deadline=sl.get('deadline'),
                               compare_ids=sl.get('compare_ids', False), act_in_trace=sl.get('act_in_trace', False), labels=list(sl['cfgs']), faults=bool(sl.get('faults')))
        ls.ops = [(o, int(e)) for o, e in ls.ops]
        ls.run()
        out['stats'] = dict(ls.stats)
        out['closed'] = ls.closed
        out['cap'] = ls.cap
        out['findings'] = ls.findings
        out['samples'] = ls.samples
    except Exception as e:
        out['error'] = repr(e) + '\n' + traceback.format_exc()
    finally:
        for p in peers:
            p.close()
    out['wall'] = time.time() - t0
    return out


def run_lockstep(pid, tier, slices=None, write_evidence=True):
    spec = propsmod.PROPS[pid]
    t0 = time.time()
    if slices is None:
        slices = spec.get(tier) or spec['quick']
    pairs = set()
    for sl in slices:
        if 'peers' in sl:
            for zn, cfg in sl['peers']:
                pairs.add((zn, cfg))
            continue
        for cfg in sl['cfgs']:
            pairs.add((sl['zoo'], cfg))
    built = vbuild.build_many(sorted(pairs))
    vbuild.degraded_caps(exe for key, exe in sorted(built.items()))
    rdir = os.path.join(vbuild.EVID, 'replays')
    os.makedirs(rdir, exist_ok=True)
    import glob
    if write_evidence:
        for old in glob.glob(os.path.join(rdir, f'{pid}-*.json')):
            os.remove(old)
    jobs = [(pid, sl, tier, i) for i, sl in enumerate(slices)]
    with ProcessPoolExecutor(max_workers=min(8, len(jobs))) as ex:
        results = list(ex.map(lockstep_job, jobs))
    errs = [r for r in results if 'error' in r]
    if errs:
        for r in errs:
            print(f'ERROR in lock-step slice {r["zoo"]}: {r["error"]}', file=sys.stderr)
        return 2
    kf = known.load()
    nviol = 0
    reported = 0
    known_seen = collections.Counter()
    known_what = {}
    for r in results:
        z = zoomod.ZOO[r['zoo']]
        shown = 0
        for f in r['findings']:
            v = {'property': pid, 'machine': r['zoo'], 'cfg': f['peers'][1], 'kind': f['kind'], 'msg': f['msg'], 'peers': f['peers'],
                 'history': f['history'], 'raw': f['raw'], 'classes': f['classes'], 'lockstep': True, 'model_flags': [],
                 'pre_pending': f.get('pre_pending', []), 'pre_config': f.get('pre_config', ()), 'post_configs': f.get('post_configs', []),
                 'engine': 'lockstep', 'slice_def': slices[r['slice']], 'tier': tier}
            k = known.match(kf, v, z)
            if k is not None:
                known_seen[k['id']] += 1
                known_what[k['id']] = k['what']
                continue
            nviol += 1
            if shown < MAX_REPORTED:
                shown += 1
                reported += 1
                path = os.path.join(rdir, f'{pid}-ls-{r["zoo"]}-{reported}.json')
                with open(path, 'w') as fh:
                    json.dump(v, fh, indent=1)
                print(f'VIOLATION property={pid} replay={path}')
                print(f'  {r["zoo"]} {f["kind"]}: classes {f["classes"]}: {f["msg"][:500]}')
    for k in sorted(known_seen):
        print(f'KNOWN-FINDING: property={pid} {known_what[k]} [{k}; {known_seen[k]} executions]')
    execs = sum(r['stats'].get('executions', 0) for r in results)
    states = sum(r['stats'].get('states', 0) for r in results)
    samples = []
    for r in results:
        samples.extend(r['samples'][:1])
    ev = {
        'property_id': pid, 'tier': tier, 'seed': int(os.environ.get('VERIF_SEED', '0')), 'level': spec['level'],
        'coverage': {
            'states': states, 'transitions': execs, 'traces_validated_against_impl': execs * (max(len(r['cfgs']) for r in results) - 1),
            'evaluations': execs, 'distinct_nontrivial': sum(r['stats'].get('nontrivial', 0) for r in results),
            'rule': spec['rule'], 'samples': samples[:6], 'exhaustive': all(r['closed'] for r in results),
            'caps_hit': sorted(set(r['cap'] for r in results if r['cap'] != '-')),
            'per_slice': [{'zoo': r['zoo'], 'peers': r['cfgs'], 'closed': r['closed'], 'cap': r['cap'], 'wall': round(r['wall'], 2), 'stats': r['stats']} for r in results],
            'known_findings_matched': dict(known_seen),
        },
        'assumptions': ['the peers are driven with identical operations and identical environment answers keyed by semantic label',
                        'observations are normalised as described in gen/lockstep.py (names for ids unless compare_ids, completion guards answering false dropped)'],
        'wall_s': round(time.time() - t0, 2), 'violations': nviol,
    }
    if not write_evidence:
        return {'nviol': nviol, 'coverage': ev['coverage'], 'known': dict(known_seen)}
    with open(os.path.join(vbuild.EVID, f'{pid}.json'), 'w') as fh:
        json.dump(ev, fh, indent=1)
    print(f'{pid} {tier}: lock-step slices={len(results)} product-states={states} executions={execs} violations={nviol} '
          f'known={sum(known_seen.values())} exhaustive={ev["coverage"]["exhaustive"]} wall={ev["wall_s"]}s')
    return 1 if nviol else 0


RUNNERS = {'lockstep': run_lockstep}


# =================================================================================================
# C15: copies and moves -- differential against the original rebuilt by replay, no model involved
class CopyPeer:
    def __init__(self, exe):
        import subprocess
        self.p = subprocess.Popen([exe, 'servecopy'], stdin=subprocess.PIPE, stdout=subprocess.PIPE, text=True, bufsize=1)

    def run(self, hist):
        req = '|'.join(f'{op},{ev},' + ';'.join(f'{k}={v}' for k, v in sorted(lm.items())) for op, ev, lm in hist) or '-'
        self.p.stdin.write(req + '\n')
        self.p.stdin.flush()
        line = self.p.stdout.readline().rstrip('\n')
        if line.startswith('NONDETERMINISM') or not line:
            raise RuntimeError(f'copy peer: {line or "died"} on {req}')
        f = line.split('\t')
        choices = []
        if f[4] != '-':
            for c in f[4].split(';'):
                if c:
                    lab, n, ch, kind = c.rsplit(':', 3)
                    choices.append((lab, int(n), int(ch), kind))
        return {'raw': f[0], 'ret': int(f[1]), 'A': f[2], 'B': f[3], 'choices': choices, 'esc': f[5], 'ledger': f[6],
                'qA': int(f[7]), 'qB': int(f[8]), 'pend': int(f[9]), 'dA': f[10], 'dB': f[11], 'leak': f[12] if len(f) > 12 else '-'}

    def close(self):
        try:
            self.p.stdin.write('QUIT\n')
            self.p.stdin.flush()
            self.p.wait(timeout=5)
        except Exception:
            self.p.kill()


def _serial_of_step(hist, idx):
    """serial the driver allocates for step idx (pe/eq allocate one each, in order)"""
    s = 0
    for i, (op, ev, lm) in enumerate(hist[:idx + 1]):
        if op.rstrip('B') in ('pe', 'eq'):
            s += 1
    return s


def _relabel(label, smap):
    """answer labels contain the driver's serial: g<gid>.<serial>.<k>, d<sid>.<serial>.<k>, p<K>.<owner>.<id>.<serial>.<k>"""
    parts = label.split('.')
    pos = 3 if label.startswith('p') else 1
    if len(parts) > pos and parts[pos].lstrip('-').isdigit() and int(parts[pos]) in smap:
        parts[pos] = str(smap[int(parts[pos])])
    return '.'.join(parts)


def _retag(raw, frm, to, smap):
    """instance tags and driver serials of a trace mapped for comparison"""
    out = []
    if raw == '-':
        return out
    for t in raw.split(' '):
        f = t.split(':')
        if len(f) > 3 and '#' in f[3]:
            e, s = f[3].split('#')
            s2 = s.split('!')[0]
            if int(s2) in smap:
                f[3] = e + '#' + str(smap[int(s2)]) + s[len(s2):]
        if f[-1] == 'I' + frm:
            f[-1] = 'I' + to
        out.append(':'.join(f))
    return out


def copy_job(job):
    pid, sl, cfg, tier, idx = job
    t0 = time.time()
    out = {'zoo': sl['zoo'], 'cfg': cfg, 'findings': [], 'stats': collections.Counter(), 'samples': [], 'slice_def': sl}
    peer = None
    try:
        ser = sl.get('serialize', False)
        if ser:
            exe = vbuild.build_one(sl['zoo'], cfg, ('-DVF_SERIALIZE',), '_ser', ('-lboost_serialization',))
        else:
            exe = vbuild.build_one(sl['zoo'], cfg)
        peer = CopyPeer(exe)
        z_ = zoomod.ZOO[sl['zoo']]
        own_sids = {m.own_sid for m in z_.machines()}
        pre_ops = [(o.split(':')[0], int(o.split(':')[1]) if ':' in o else 0) for o in sl['pre_ops']]
        cont_ops = [(o.split(':')[0], int(o.split(':')[1]) if ':' in o else 0) for o in sl['cont_ops']]
        L = sl.get('cont_len', 2)
        qbound = sl.get('qbound', 2)
        guards = sl.get('guards', 1)
        is_mp11 = cfg in ('m', 'mf', 'mc')
        copy_ops = ['svt', 'svb'] if ser else ['cc', 'ca'] + (['mvc', 'mva'] if is_mp11 else [])

        def answers(hist_prefix, op):
            """all label maps for the last step (DFS over the answers the implementation asks for)"""
            res = []
            seen = set()
            stack = [{}]
            while stack:
                lm = stack.pop()
                k = frozenset(lm.items())
                if k in seen:
                    continue
                seen.add(k)
                r = peer.run(hist_prefix + [(op[0], op[1], lm)])
                asked = {lab: (n, kind) for lab, n, ch, kind in r['choices']}
                if {kk: v for kk, v in lm.items() if kk in asked} != lm:
                    continue
                res.append((lm, r))
                if sum(1 for kk in lm) >= guards:
                    continue
                for lab, (n, kind) in asked.items():
                    if lab not in lm:
                        for alt in range(1, n):
                            lm2 = dict(lm)
                            lm2[lab] = alt
                            stack.append(lm2)
            return res

        # ---- phase 1: copy points = all reachable states of the original (with <= qbound queued events)
        init = peer.run([])
        seenA = {init['A']: []}
        frontier = collections.deque([([], init)])
        started = {init['A']: False}
        while frontier:
            hist, st = frontier.popleft()
            for op in pre_ops:
                if op[0] == 'start' and started[st['A']]:
                    continue
                if op[0] != 'start' and not started[st['A']]:
                    continue
                if op[0] in ('eq', 'pe') and st['pend'] >= qbound:
                    continue
                for lm, r in answers(hist, op):
                    out['stats']['pre_executions'] += 1
                    if r['A'] not in seenA:
                        h2 = hist + [(op[0], op[1], lm)]
                        seenA[r['A']] = h2
                        started[r['A']] = started[st['A']] or op[0] == 'start'
                        frontier.append((h2, r))
        out['stats']['copy_points'] = len(seenA)

        cur = {'pend': 0}

        def finding(kind, msg, hist):
            out['stats']['divergent'] += 1
            if len(out['findings']) < 4000:
                out['findings'].append({'kind': kind, 'msg': msg, 'history': [(o, e, dict(l)) for o, e, l in hist], 'pending_at_copy': cur['pend']})

        # ---- phase 2: every copy point x copy operation x continuation pairs
        for canonA, P in seenA.items():
            if not started[canonA]:
                continue
            cur['pend'] = peer.run(P)['pend'] if P else 0
            for cop in copy_ops:
                base = P + [(cop, 0, {})]
                r0 = peer.run(base)
                out['stats']['copies'] += 1
                moved = cop in ('mvc', 'mva')
                if r0['B'] != canonA.replace('', '') and r0['B'] != canonA:
                    finding('copy-state', f'{cop}: the copy is in state [{r0["B"]}] but the original was in [{canonA}]', base)
                if not moved and r0['A'] != canonA:
                    finding('original-changed', f'{cop}: taking the copy changed the original: [{canonA}] -> [{r0["A"]}]', base)
                da = dict(kv.split('=') for kv in r0['dA'].split(',') if kv) if r0['dA'] != '-' else {}
                db = dict(kv.split('=') for kv in r0['dB'].split(',') if kv) if r0['dB'] != '-' else {}
                if ser:
                    rp = peer.run(P)
                    da = dict(kv.split('=') for kv in rp['dA'].split(',') if kv)
                    exp = {k: (v if (int(k) % 2 == 1 or int(k) in own_sids) else '0') for k, v in da.items()}
                    if db != exp:
                        finding('state-data', f'{cop}: data of the loaded machine {db}, expected {exp} (do_serialize states and front-ends restored, the rest freshly constructed)', base)
                elif not moved and db != da:
                    finding('state-data', f'{cop}: state / front-end data of the copy {db} differs from the original {da}', base)
                if r0['raw'] != '-':
                    finding('copy-behaviour', f'{cop} invoked behaviours: {r0["raw"][:300]}', base)
                if r0['esc'] != '-':
                    finding('escaped', f'{cop} threw {r0["esc"]}', base)
                # continuation sequences (interleavings of operations on A and on B)
                level = [(base, r0, [], [])]     # (history, last reply, ops applied to A since copy, ops applied to B)
                for depth in range(L):
                    nxt = []
                    for hist, rprev, opsA, opsB in level:
                        targets = ['B'] if moved else ['A', 'B']
                        extra = []
                        if moved and depth == 0:
                            extra = [('dA', 0), ('asA', 0)]
                        for tgt in targets:
                            for op in cont_ops:
                                q = rprev['qA'] if tgt == 'A' else rprev['qB']
                                if op[0] == 'eq' and q >= qbound:
                                    continue
                                if op[0] == 'xs' and q == 0:
                                    continue
                                opn = op[0] + ('B' if tgt == 'B' else '')
                                for lm, r in answers(hist, (opn, op[1])):
                                    out['stats']['continuations'] += 1
                                    h2 = hist + [(opn, op[1], lm)]
                                    # reference: the original rebuilt by replay, driven with the same operations
                                    # The driver numbers the events of BOTH machines with one counter; in the reference run only
                                    # this target's operations exist.  Map every serial of this target's operations (also of
                                    # events enqueued earlier and dispatched now) to the serial it has in the reference run, in
                                    # the traces and in the answer labels (which contain the serial).
                                    nP = _serial_of_step(P, len(P) - 1) if P else 0
                                    smapH2R = {}
                                    cnt = 0
                                    ref_hist = list(P)
                                    for i_ in range(len(base), len(h2)):
                                        o_, e_, l_ = h2[i_]
                                        if o_.endswith('B') != (tgt == 'B'):
                                            continue
                                        ob = o_[:-1] if o_.endswith('B') else o_
                                        if ob in ('pe', 'eq'):
                                            cnt += 1
                                            smapH2R[_serial_of_step(h2, i_)] = nP + cnt
                                        ref_hist.append((ob, e_, {_relabel(kk, smapH2R): v for kk, v in l_.items()}))
                                    rr = peer.run(ref_hist)
                                    got = _retag(r['raw'], 'b' if tgt == 'B' else 'a', 'a', smapH2R)
                                    exp = _retag(rr['raw'], 'a', 'a', {})
                                    wrong_inst = [t for t in r['raw'].split(' ') if t != '-' and t.split(':')[-1].startswith('I') and t.split(':')[-1] != ('Ib' if tgt == 'B' else 'Ia')]
                                    if wrong_inst:
                                        finding('foreign-behaviour', f'driving the {"copy" if tgt == "B" else "original"} invoked behaviours of the other machine: {" ".join(wrong_inst[:4])}', h2)
                                    elif got != exp:
                                        finding('copy-diverges', f'{"copy" if tgt == "B" else "original"} reacted [{" ".join(got)[:400]}], the original rebuilt by replay reacts [{" ".join(exp)[:400]}]', h2)
                                    elif (r['B'] if tgt == 'B' else r['A']) != rr['A']:
                                        finding('copy-state-diverges', f'state after the operation [{r["B"] if tgt == "B" else r["A"]}] vs rebuilt original [{rr["A"]}]', h2)
                                    other_before = rprev['A'] if tgt == 'B' else rprev['B']
                                    other_after = r['A'] if tgt == 'B' else r['B']
                                    if other_before != other_after and not wrong_inst and not (moved and tgt == 'B'):
                                        finding('other-machine-changed', f'driving one machine changed the other: [{other_before}] -> [{other_after}]', h2)
                                    if r['esc'] != '-':
                                        finding('escaped', f'{r["esc"]}', h2)
                                    if r['leak'] != '-':
                                        finding('event-leak', f'event copies alive after both machines were destroyed: {r["leak"]}', h2)
                                    if len(out['samples']) < 2 and r['raw'] != '-':
                                        out['samples'].append({'machine': sl['zoo'], 'cfg': cfg, 'history': [(o_, e_, dict(l_)) for o_, e_, l_ in h2], 'trace': r['raw'][:300]})
                                    nxt.append((h2, r, opsA + ([(op[0], op[1], lm)] if tgt == 'A' else []), opsB + ([(op[0], op[1], lm)] if tgt == 'B' else [])))
                        for eop in extra:
                            h2 = hist + [(eop[0], 0, {})]
                            r = peer.run(h2)
                            out['stats']['moved_from_ops'] += 1
                            if r['esc'] != '-':
                                finding('moved-from', f'{eop[0]} on the moved-from machine threw {r["esc"]}', h2)
                            if eop[0] == 'asA' and r['A'] != r['B']:
                                finding('moved-from', f'assigning to the moved-from machine gives [{r["A"]}] instead of [{r["B"]}]', h2)
                    level = nxt
    except Exception as e:
        out['error'] = repr(e) + '\n' + traceback.format_exc()
    finally:
        if peer:
            peer.close()
    out['stats'] = dict(out['stats'])
    out['wall'] = time.time() - t0
    return out


def run_copy(pid, tier):
    spec = propsmod.PROPS[pid]
    t0 = time.time()
    slices = spec.get(tier) or spec['quick']
    jobs = []
    pairs = set()
    for i, sl in enumerate(slices):
        for cfg in sl['cfgs']:
            jobs.append((pid, sl, cfg, tier, i))
            if sl.get('serialize'):
                pairs.add((sl['zoo'], cfg, ('-DVF_SERIALIZE',), '_ser', ('-lboost_serialization',)))
            else:
                pairs.add((sl['zoo'], cfg))
    vbuild.build_many(sorted(pairs))
    rdir = os.path.join(vbuild.EVID, 'replays')
    os.makedirs(rdir, exist_ok=True)
    import glob
    for old in glob.glob(os.path.join(rdir, f'{pid}-*.json')):
        os.remove(old)
    with ProcessPoolExecutor(max_workers=16) as ex:
        results = list(ex.map(copy_job, jobs))
    errs = [r for r in results if 'error' in r]
    if errs:
        for r in errs:
            print(f'ERROR in copy slice {r["zoo"]}/{r["cfg"]}: {r["error"]}', file=sys.stderr)
        return 2
    kf = known.load()
    nviol = 0
    reported = 0
    known_seen = collections.Counter()
    known_what = {}
    for r in results:
        z = zoomod.ZOO[r['zoo']]
        shown = 0
        extra = r['stats'].get('divergent', 0) - len(r['findings'])
        for f in r['findings']:
            v = {'property': pid, 'machine': r['zoo'], 'cfg': r['cfg'], 'kind': f['kind'], 'msg': f['msg'], 'history': f['history'], 'copymode': True, 'model_flags': [], 'pending_at_copy': f['pending_at_copy'],
                 'engine': 'copy', 'slice_def': r['slice_def'], 'tier': tier}
            k = known.match(kf, v, z)
            if k is not None:
                known_seen[k['id']] += 1
                known_what[k['id']] = k['what']
                continue
            nviol += 1
            if shown < MAX_REPORTED:
                shown += 1
                reported += 1
                path = os.path.join(rdir, f'{pid}-{r["zoo"]}-{r["cfg"]}-{reported}.json')
                with open(path, 'w') as fh:
                    json.dump(v, fh, indent=1)
                print(f'VIOLATION property={pid} replay={path}')
                print(f'  {r["zoo"]}/{r["cfg"]} {f["kind"]}: {f["msg"][:500]}')
        del extra
    for k in sorted(known_seen):
        print(f'KNOWN-FINDING: property={pid} {known_what[k]} [{k}; {known_seen[k]} executions]')
    conts = sum(r['stats'].get('continuations', 0) for r in results)
    samples = []
    for r in results:
        samples.extend(r['samples'][:1])
    ev = {
        'property_id': pid, 'tier': tier, 'seed': int(os.environ.get('VERIF_SEED', '0')), 'level': spec['level'],
        'coverage': {
            'states': sum(r['stats'].get('copy_points', 0) for r in results), 'transitions': conts,
            'traces_validated_against_impl': conts, 'evaluations': conts + sum(r['stats'].get('copies', 0) for r in results),
            'distinct_nontrivial': conts, 'rule': spec['rule'], 'samples': samples[:6], 'exhaustive': True,
            'per_slice': [{'zoo': r['zoo'], 'cfg': r['cfg'], 'wall': round(r['wall'], 2), 'stats': r['stats']} for r in results],
            'known_findings_matched': dict(known_seen),
        },
        'assumptions': ['copy from a const reference; the reference behaviour is the original machine rebuilt by replaying the same history without the copy',
                        'callbacks are attributed to a machine object by the address of the Fsm argument'],
        'wall_s': round(time.time() - t0, 2), 'violations': nviol,
    }
    with open(os.path.join(vbuild.EVID, f'{pid}.json'), 'w') as fh:
        json.dump(ev, fh, indent=1)
    print(f'{pid} {tier}: copy points={ev["coverage"]["states"]} continuations={conts} violations={nviol} known={sum(known_seen.values())} wall={ev["wall_s"]}s')
    return 1 if nviol else 0


RUNNERS['copy'] = run_copy


# =================================================================================================
# C20: storage / lifetime harness (storage/storage.cpp), clang ASan + UBSan, exhaustive op sequences
ST_BACKENDS = {'m': 5, 'mc': 7, 'b': 1, 'bq': 2, 'b11': 4}
ST_TYPES_QUICK = [(1, 1, 5), (1, 4, 0), (16, 16, 2), (40, 8, 2), (41, 8, 2), (64, 64, 4), (200, 8, 1)]
ST_TYPES_THOROUGH = [(1, 4, 0), (8, 8, 0), (32, 8, 2), (40, 8, 2), (41, 8, 2), (48, 8, 2), (56, 8, 0), (57, 8, 2), (64, 8, 0), (200, 8, 1), (512, 8, 2),
                     (16, 16, 2), (32, 32, 0), (64, 64, 4), (40, 8, 4), (40, 8, 3), (4, 8, 1), (24, 8, 3), (1, 1, 5), (3, 2, 5), (100, 4, 0)]


ST_TYPES_DEEP = [(41, 8, 2), (200, 8, 1), (40, 8, 4), (1, 1, 5)]


# MemorySanitizer pass (reads of uninitialised memory): same harness, separate build; fewer types in the quick tier
ST_MSAN_QUICK = [(41, 8, 2), (200, 8, 1)]


def st_build(args):
    be, typ = args[0], args[1]
    san = args[2] if len(args) > 2 else 'asan'
    import hashlib
    d = vbuild.cache_dir()
    n, a, k = typ
    name = f'st_{be}_{n}_{a}_{k}' + ('' if san == 'asan' else '_' + san)
    exe = os.path.join(d, name)
    src = os.path.join(VERIF, 'storage', 'storage.cpp')
    h = hashlib.sha256(open(src, 'rb').read()).hexdigest()[:10]
    exe = exe + '_' + h
    if os.path.exists(exe):
        return exe
    inc = os.path.join(d, name + '_inc')
    os.makedirs(inc, exist_ok=True)
    with open(os.path.join(inc, 'types.inc'), 'w') as fh:
        fh.write(f'typedef Evt<{n}, {a}, {k}> T0;\nST_GEN(T0)\n#define ST_TYPES(X) X(T0, "Evt<{n},{a},{k}>")\n')
    import subprocess
    sflags = ['-fsanitize=address,undefined', '-fno-sanitize=function', '-fsanitize-recover=address'] if san == 'asan' else \
             ['-fsanitize=memory', '-fsanitize-memory-track-origins']
    cmd = ['clang++', '-std=c++17', '-O1', '-g', '-w', '-fno-access-control', *sflags, f'-DST_BACKEND={ST_BACKENDS[be]}', f'-I{vbuild.REPO}/include', f'-I{inc}', src, '-o', exe + f'.{os.getpid()}.tmp']
    r = subprocess.run(cmd, capture_output=True, text=True)
    if r.returncode != 0:
        raise RuntimeError('storage build failed: ' + ' '.join(cmd) + '\n' + '\n'.join(l for l in r.stderr.split('\n') if 'error' in l)[:2000])
    os.replace(exe + f'.{os.getpid()}.tmp', exe)
    return exe


def st_run(args):
    be, typ, depth = args[0], args[1], args[2]
    san = args[3] if len(args) > 3 else 'asan'
    import subprocess
    t0 = time.time()
    exe = st_build((be, typ, san))
    env = dict(os.environ)
    env['ASAN_OPTIONS'] = 'halt_on_error=0:detect_leaks=1:exitcode=23'
    env['UBSAN_OPTIONS'] = 'print_stacktrace=0:halt_on_error=0'
    env['MSAN_OPTIONS'] = 'exitcode=24'
    r = subprocess.run([exe, str(depth)], capture_output=True, text=True, env=env)
    res = {'be': be, 'type': typ, 'depth': depth, 'exit': r.returncode, 'wall': time.time() - t0, 'bad': [], 'samples': [], 'sequences': 0, 'verified': 0,
           'sanitizer': '', 'exe': exe, 'san': san}
    for line in r.stdout.split('\n'):
        if line.startswith('RESULT'):
            kv = dict(x.split('=') for x in line.split()[1:])
            res['sequences'] = int(kv['sequences'])
            res['nbad'] = int(kv['bad'])
            res['verified'] = int(kv['verified_dispatches'])
        elif line.startswith('BAD '):
            res['bad'].append(line[4:])
        elif line.startswith('SAMPLE '):
            res['samples'].append(line[7:])
    san = [l for l in r.stderr.split('\n') if 'ERROR: AddressSanitizer' in l or 'ERROR: LeakSanitizer' in l or 'runtime error' in l or 'MemorySanitizer' in l]
    res['sanitizer'] = '\n'.join(san[:5])
    if 'nbad' not in res:
        res['nbad'] = 1
        res['bad'].append('harness crashed: ' + (r.stderr[-400:] or r.stdout[-400:]))
    return res


def run_storage(pid, tier):
    spec = propsmod.PROPS[pid]
    t0 = time.time()
    types = ST_TYPES_THOROUGH if tier == 'thorough' else ST_TYPES_QUICK
    depth = spec['depth'][tier] if tier in spec['depth'] else spec['depth']['quick']
    jobs = [(be, t, depth, 'asan') for be in ST_BACKENDS for t in types]
    jobs += [(be, t, depth, 'msan') for be in ST_BACKENDS for t in (types if tier == 'thorough' else ST_MSAN_QUICK)]
    if tier == 'thorough':
        # one level deeper for the types around the inline/heap boundary and the special classes
        jobs += [(be, t, depth + 1, 'asan') for be in ST_BACKENDS for t in ST_TYPES_DEEP]
    rdir = os.path.join(vbuild.EVID, 'replays')
    os.makedirs(rdir, exist_ok=True)
    import glob
    for old in glob.glob(os.path.join(rdir, f'{pid}-*.json')):
        os.remove(old)
    with ProcessPoolExecutor(max_workers=16) as ex:
        list(ex.map(st_build, [(be, t, san) for be, t, _, san in jobs]))
        results = list(ex.map(st_run, jobs))
    nviol = 0
    reported = 0
    for r in results:
        problems = list(r['bad'])
        if r['sanitizer'] and not problems:
            problems.append('sanitizer: ' + r['sanitizer'][:300])
        if r['exit'] not in (0, 1) and not problems:
            problems.append(f'exit code {r["exit"]}')
        if r['nbad'] or problems:
            nviol += max(r['nbad'], 1)
            for b in problems[:3]:
                reported += 1
                path = os.path.join(rdir, f'{pid}-{r["be"]}-{reported}.json')
                with open(path, 'w') as fh:
                    json.dump({'property': pid, 'engine': 'storage', 'backend': r['be'], 'type': r['type'], 'san': r.get('san', 'asan'), 'finding': b, 'sanitizer': r['sanitizer'],
                               'replay': f'{r["exe"]} 0 --replay "Evt<{r["type"][0]},{r["type"][1]},{r["type"][2]}>" <operation names as listed>'}, fh, indent=1)
                print(f'VIOLATION property={pid} replay={path}')
                print(f'  {r["be"]} {b[:500]}')
    seqs = sum(r['sequences'] for r in results)
    ev = {
        'property_id': pid, 'tier': tier, 'seed': int(os.environ.get('VERIF_SEED', '0')), 'level': spec['level'],
        'coverage': {
            'evaluations': seqs, 'distinct_nontrivial': sum(1 for r in results for _ in range(1) if r['verified'] > 0) and seqs,
            'rule': spec['rule'] + f' (depth {depth}, thorough: additionally depth {depth + 1} for four types; every sequence is distinct by construction; non-trivial = all sequences, they all construct, store or destroy events)',
            'samples': [s for r in results for s in r['samples'][:1]][:8], 'exhaustive': True,
            'verified_dispatches': sum(r['verified'] for r in results),
            'per_job': [{'backend': r['be'], 'sanitizer': r['san'], 'type': 'Evt<%d,%d,%d>' % r['type'], 'depth': r['depth'], 'sequences': r['sequences'], 'bad': r['nbad'], 'wall': round(r['wall'], 2)} for r in results],
        },
        'assumptions': ['event type zoo: size x alignment x {trivial, user copy+dtor, noexcept move, throwing move, self-referential}',
                        'clang 14 AddressSanitizer + UndefinedBehaviorSanitizer (function-pointer-type check disabled: favor_compile_time type-puns its cells by design) + LeakSanitizer are part of the oracle',
                        'second pass of the same sequences under clang 14 MemorySanitizer (reads of uninitialised memory); the harness avoids non-template libstdc++ code so that the uninstrumented libstdc++.so does not blind it'],
        'wall_s': round(time.time() - t0, 2), 'violations': nviol,
    }
    with open(os.path.join(vbuild.EVID, f'{pid}.json'), 'w') as fh:
        json.dump(ev, fh, indent=1)
    print(f'{pid} {tier}: back-ends={len(ST_BACKENDS)} types={len(types)} depth={depth} sequences={seqs} violations={nviol} wall={ev["wall_s"]}s')
    return 1 if nviol else 0


RUNNERS['storage'] = run_storage


# =================================================================================================
# C14: front-end equivalence (lock-step over syntaxes) + PlantUML tokenizer enumeration + guard batch
def _puml_build(name, src, std='c++20', opt='-O2'):
    import hashlib
    import subprocess
    d = vbuild.cache_dir()
    h = hashlib.sha256(open(src, 'rb').read()).hexdigest()[:10]
    exe = os.path.join(d, f'{name}_{h}')
    if os.path.exists(exe):
        return exe
    cmd = ['g++', f'-std={std}', opt, '-w', f'-I{vbuild.REPO}/include', src, '-o', exe + f'.{os.getpid()}.tmp']
    r = subprocess.run(cmd, capture_output=True, text=True)
    if r.returncode != 0:
        raise RuntimeError(f'{name} build failed:\n' + '\n'.join(l for l in r.stderr.split('\n') if 'error' in l)[:2000])
    os.replace(exe + f'.{os.getpid()}.tmp', exe)
    return exe


def run_frontends(pid, tier):
    import subprocess
    spec = propsmod.PROPS[pid]
    t0 = time.time()
    rdir = os.path.join(vbuild.EVID, 'replays')
    os.makedirs(rdir, exist_ok=True)
    import glob
    for old in glob.glob(os.path.join(rdir, f'{pid}-*.json')):
        os.remove(old)
    nviol = 0
    # (a) lock-step over the front-end syntaxes
    ls = run_lockstep(pid, tier, slices=spec.get('lockstep_' + tier) or spec['lockstep_quick'], write_evidence=False)
    if isinstance(ls, int):
        return ls
    nviol += ls['nviol']
    # (b) tokenizer enumeration at run time
    tk = _puml_build('puml_tokenizer', os.path.join(VERIF, 'puml', 'tokenizer.cpp'))
    args = spec['tokenizer'][tier] if tier in spec['tokenizer'] else spec['tokenizer']['quick']
    r = subprocess.run([tk, *[str(a) for a in args]], capture_output=True, text=True)
    tkres = {}
    tkbad = []
    tksamples = []
    for line in r.stdout.split('\n'):
        if line.startswith('RESULT'):
            tkres = {k: int(v) for k, v in (x.split('=') for x in line.split()[1:])}
        elif line.startswith('BAD '):
            tkbad.append(line[4:])
        elif line.startswith('SAMPLE '):
            tksamples.append(line[7:])
    if not tkres:
        print(f'ERROR tokenizer harness crashed: {r.stderr[-500:]}', file=sys.stderr)
        return 2
    n_tk = tkres['bad_lines'] + tkres['bad_documents']
    nviol += n_tk
    for i, b in enumerate(tkbad[:MAX_REPORTED]):
        path = os.path.join(rdir, f'{pid}-tokenizer-{i + 1}.json')
        with open(path, 'w') as fh:
            json.dump({'property': pid, 'engine': 'tokenizer', 'part': 'tokenizer', 'finding': b, 'args': list(args), 'replay': f'{tk} {" ".join(str(a) for a in args)}'}, fh, indent=1)
        print(f'VIOLATION property={pid} replay={path}')
        print(f'  tokenizer: {b[:500]}')
    # (c) compile-time batch: guard expression trees and state attribute lines
    gsrc = os.path.join(vbuild.cache_dir(), 'puml_guards.cpp')
    g = subprocess.run([sys.executable, os.path.join(VERIF, 'puml', 'gen_guards.py')], capture_output=True, text=True)
    with open(gsrc, 'w') as fh:
        fh.write(g.stdout)
    ge = _puml_build('puml_guards', gsrc, opt='-O0')
    r2 = subprocess.run([ge], capture_output=True, text=True)
    gres = {}
    gbad = []
    for line in r2.stdout.split('\n'):
        if line.startswith('RESULT'):
            gres = {k: int(v) for k, v in (x.split('=') for x in line.split()[1:])}
        elif line.startswith('BAD '):
            gbad.append(line[4:])
    nviol += gres.get('bad', 1)
    for i, b in enumerate(gbad[:MAX_REPORTED]):
        path = os.path.join(rdir, f'{pid}-guards-{i + 1}.json')
        with open(path, 'w') as fh:
            json.dump({'property': pid, 'engine': 'guard-batch', 'part': 'guard-batch', 'finding': b, 'replay': ge}, fh, indent=1)
        print(f'VIOLATION property={pid} replay={path}')
        print(f'  guard batch: {b[:500]}')
    cov = ls['coverage']
    ev = {
        'property_id': pid, 'tier': tier, 'seed': int(os.environ.get('VERIF_SEED', '0')), 'level': spec['level'],
        'coverage': {
            'states': cov['states'], 'transitions': cov['transitions'], 'traces_validated_against_impl': cov['traces_validated_against_impl'],
            'evaluations': cov['evaluations'] + tkres['lines'] + tkres['documents'] + gres.get('guard_expressions', 0),
            'distinct_nontrivial': cov['distinct_nontrivial'] + tkres['lines'],
            'rule': spec['rule'], 'samples': cov['samples'][:3] + tksamples[:3], 'exhaustive': cov['exhaustive'],
            'frontend_lockstep': cov['per_slice'], 'tokenizer': tkres, 'tokenizer_args': list(args), 'compile_time_batch': gres,
        },
        'assumptions': ['front-end syntaxes compared: functor Row (none, ActionSequence_, And_/Or_/Not_), basic row/a_row/g_row/_row + irow family, row2 family, PlantUML string, eUML transition-table expression (back/back11)',
                        'tokenizer grammar and bounds as written in puml/tokenizer.cpp; un-wrapped edge documents are counted, not judged'],
        'wall_s': round(time.time() - t0, 2), 'violations': nviol,
    }
    with open(os.path.join(vbuild.EVID, f'{pid}.json'), 'w') as fh:
        json.dump(ev, fh, indent=1)
    print(f'{pid} {tier}: front-end lock-step executions={cov["evaluations"]} tokenizer lines={tkres["lines"]} documents={tkres["documents"]} '
          f'guard expressions={gres.get("guard_expressions", 0)} violations={nviol} wall={ev["wall_s"]}s')
    return 1 if nviol else 0


RUNNERS['frontends'] = run_frontends


# =================================================================================================
def _norm_hist(h):
    return [[o, int(e), {k: int(v) for k, v in dict(l).items()}] for o, e, l in h]


def replay(pid, path):
    """replay a violation of one of the custom engines: the slice it came from is explored again (they are small) and the
    recorded finding is looked up by kind and history; for the storage harness the recorded operation sequence is run.
    exit 1 = still reproduces, 0 = behaviour differs from the recorded violation"""
    with open(path) as fh:
        v = json.load(fh)
    eng = v.get('engine')
    if eng == 'storage':
        import subprocess
        import re
        typ = tuple(v['type'])
        exe = st_build((v['backend'], typ, v.get('san', 'asan')))
        m = re.match(r'(Evt<[^>]*>): (.*?) =>', v['finding'])
        if not m:
            print('the recorded finding names no operation sequence (sanitizer report of a whole run): re-running the type')
            r = st_run((v['backend'], typ, 4, v.get('san', 'asan')))
            print('  ', r['bad'][:2], r['sanitizer'][:300])
            return 1 if (r['nbad'] or r['sanitizer']) else 0
        env = dict(os.environ, ASAN_OPTIONS='halt_on_error=0:detect_leaks=1:exitcode=23', UBSAN_OPTIONS='print_stacktrace=0:halt_on_error=0', MSAN_OPTIONS='exitcode=24')
        r = subprocess.run([exe, '0', '--replay', m.group(1)] + m.group(2).split(), capture_output=True, text=True, env=env)
        print(f'{v["backend"]} {m.group(1)}: {m.group(2)}')
        print('  ', (r.stdout.strip() or '-')[:600])
        san = [l for l in r.stderr.split('\n') if 'Sanitizer' in l or 'runtime error' in l]
        if san:
            print('  ', san[0][:400])
        return 1 if (r.returncode != 0 or san) else 0
    if eng in ('tokenizer', 'guard-batch'):
        import subprocess
        if eng == 'tokenizer':
            exe = _puml_build('puml_tokenizer', os.path.join(VERIF, 'puml', 'tokenizer.cpp'))
            r = subprocess.run([exe] + [str(a) for a in v.get('args', [2, 3])], capture_output=True, text=True)
        else:
            gsrc = os.path.join(vbuild.cache_dir(), 'puml_guards.cpp')
            g = subprocess.run([sys.executable, os.path.join(VERIF, 'puml', 'gen_guards.py')], capture_output=True, text=True)
            with open(gsrc, 'w') as fh:
                fh.write(g.stdout)
            r = subprocess.run([_puml_build('puml_guards', gsrc, opt='-O0')], capture_output=True, text=True)
        hit = [l for l in r.stdout.split('\n') if l.startswith('BAD ') and l[4:] == v['finding']]
        print((hit[0] if hit else 'the recorded input is handled correctly now: ' + v['finding'])[:600])
        return 1 if hit else 0
    sl = v['slice_def']
    want = (v['kind'], _norm_hist(v['history']))
    if eng == 'lockstep':
        pairs = [(zn, cfg) for zn, cfg in sl['peers']] if 'peers' in sl else [(sl['zoo'], cfg) for cfg in sl['cfgs']]
        vbuild.build_many(sorted(set(pairs)))
        r = lockstep_job((pid, sl, v.get('tier', 'quick'), 0))
    elif eng == 'copy':
        if sl.get('serialize'):
            vbuild.build_one(sl['zoo'], v['cfg'], ('-DVF_SERIALIZE',), '_ser', ('-lboost_serialization',))
        else:
            vbuild.build_one(sl['zoo'], v['cfg'])
        r = copy_job((pid, sl, v['cfg'], v.get('tier', 'quick'), 0))
    else:
        print('unknown engine in ' + path)
        return 2
    if 'error' in r:
        print(r['error'])
        return 2
    for f in r['findings']:
        if (f['kind'], _norm_hist(f['history'])) == want:
            print(f'{v["machine"]}: history {f["history"]}')
            print(f'  finding: {f["kind"]} - {f["msg"][:1200]}')
            for k, t in (f.get('raw') or {}).items():
                print(f'  trace of {k}: {t[:600]}')
            return 1
    print(f'the slice was explored again ({r["stats"]}); no finding of kind {v["kind"]} for the recorded history')
    return 0
