"""Run the explorer binary for one (zoo, configuration, slice), replay every explored execution on
the reference model with the same environment answers, and hand both traces to property oracles."""
import os
import subprocess
import sys
import json
import time

import desc
import model as modelmod

DIALECT = {'b': 'back', 'bc': 'back', 'bq': 'back', 'b11': 'back', 'm': 'mp11', 'mf': 'mp11', 'mc': 'mp11'}


class Tok:
    __slots__ = ('raw', 'K', 'owner', 'id', 'eid', 'serial', 'act', 'res', 'extra')

    def __init__(self, raw):
        self.raw = raw
        if raw.startswith('!'):
            self.K = '!'
            self.owner = self.id = self.eid = self.serial = None
            self.act = None
            self.res = None
            self.extra = raw
            return
        f = raw.split(':')
        self.K = f[0]
        if self.K == 'D':
            # D:sid:eid#serial:answer
            self.owner = None
            self.id = int(f[1])
            e, s = f[2].split('#')
            self.eid = int(e)
            self.serial = int(s.split('!')[0])
            self.act = None
            self.res = f[3]
            self.extra = None
            return
        self.owner = int(f[1])
        self.id = int(f[2])
        e, s = f[3].split('#')
        self.eid = int(e)
        self.extra = None
        if '!' in s:
            s, bad = s.split('!', 1)
            self.extra = '!' + bad
        self.serial = int(s)
        self.act = f[4] if len(f) > 4 else None
        self.res = f[5] if len(f) > 5 and self.K == 'G' else None
        rest = f[6:] if self.K == 'G' else f[5:]
        if rest:
            self.extra = (self.extra or '') + ':' + ':'.join(rest)

    def flags(self):
        if self.extra and ':F' in self.extra:
            return self.extra.split(':F', 1)[1].split(':')[0]
        return None

    def key(self, with_act=False):
        if self.K == '!':
            return self.raw
        if with_act:
            return (self.K, self.owner, self.id, self.eid, self.serial, self.res, self.act)
        return (self.K, self.owner, self.id, self.eid, self.serial, self.res)


def parse_trace(s):
    if s == '-' or not s:
        return []
    return [Tok(t) for t in s.split(' ')]


def parse_tape(s):
    d = {}
    if s != '-':
        for kv in s.split(','):
            k, v = kv.rsplit('=', 1)
            d[k] = int(v)
    return d


class Execution:
    __slots__ = ('src', 'op', 'ev', 'tape', 'rawtape', 'trace', 'ret', 'dst', 'esc', 'ledger', 'rawseq',
                 'mtrace', 'mret', 'mworld', 'index', 'src_canon', 'dst_canon', 'dst_intro')


class Result:
    def __init__(self):
        self.states = 0
        self.transitions = 0
        self.executions = 0
        self.closed = False
        self.cap = '-'
        self.maxdepth = 0
        self.wall = 0.0
        self.model_errors = 0
        self.pruned = 0


def snapshot_fields(canon):
    """parse 'M0:a=..:h=..:..;M1:...;L:..;P:..;C:..;S:x' into dict"""
    out = {'machines': {}}
    for part in canon.split(';'):
        if not part:
            continue
        if part.startswith('M'):
            f = part.split(':')
            mid = int(f[0][1:])
            d = {}
            for kv in f[1:]:
                k, v = kv.split('=', 1)
                d[k] = v
            out['machines'][mid] = d
        elif part.startswith('L:'):
            out['ledger'] = {int(kv.split('=')[0]): int(kv.split('=')[1]) for kv in part[2:].split(',') if kv}
        elif part.startswith('P:'):
            out['pending'] = [int(x) for x in part[2:].split(',') if x]
        elif part.startswith('C:'):
            out['cmemo'] = part[2:]
        elif part.startswith('S:'):
            out['started'] = part[2:] == '1'
        elif part.startswith('QQ:'):
            out['queues'] = part[3:]
        elif part.startswith('I:'):
            out['introhash'] = part[2:]
        elif part.startswith('FO:'):
            out['fault_ops'] = int(part[3:])
    return out


def run_explorer(exe, ops, depth=60, faults=0, submits=0, qbound=2, introspect=False, observe_flags=False,
                 max_exec=3000000, max_states=500000, warm=None, deadline=None, outfile=None, submit_in_nt=False, guards=-1, fault_ops=-1):
    cmd = [exe, 'explore', '--ops', ','.join(ops), '--depth', str(depth), '--faults', str(faults),
           '--submits', str(submits), '--qbound', str(qbound), '--max-exec', str(max_exec), '--max-states', str(max_states)]
    if guards >= 0:
        cmd += ['--guards', str(guards)]
    if fault_ops >= 0:
        cmd += ['--fault-ops', str(fault_ops)]
    if introspect:
        cmd.append('--introspect')
    if observe_flags:
        cmd.append('--observe-flags')
    if submit_in_nt:
        cmd.append('--submit-in-nt')
    if warm:
        cmd += ['--warm', warm]
    if deadline:
        cmd += ['--deadline', str(deadline)]
    cmd += ['--out', outfile]
    r = subprocess.run(cmd, capture_output=True, text=True)
    if r.returncode != 0:
        raise RuntimeError(f'explorer failed ({r.returncode}): {" ".join(cmd)}\n{r.stderr[-2000:]}')
    return outfile


def iterate(outfile):
    """yield ('S', id, canon, intro) / ('X', Execution) / ('E', dict)"""
    with open(outfile) as fh:
        for line in fh:
            f = line.rstrip('\n').split('\t')
            if f[0] == 'S':
                yield ('S', int(f[1]), f[2], f[3] if len(f) > 3 else '')
            elif f[0] == 'X':
                x = Execution()
                x.src = int(f[1])
                op, ev = f[2].split(':')
                x.op = op
                x.ev = int(ev)
                x.tape = parse_tape(f[3])
                x.rawtape = f[4]
                x.trace = parse_trace(f[5])
                x.ret = int(f[6])
                x.dst = int(f[7])
                x.esc = f[8]
                x.ledger = f[9]
                x.rawseq = f[10] if len(f) > 10 else ''
                yield ('X', x)
            elif f[0] == 'E':
                d = {}
                for kv in f[1:]:
                    k, v = kv.split('=')
                    d[k] = v
                yield ('E', d)


class Conformer:
    """drives the model alongside the explored executions"""

    def __init__(self, zoo, cfg, faults=False, n_menu=0, submit_in_nt=False, observe_flags=False, warm=None):
        self.z = desc.for_family(zoo, cfg)
        self.cfg = cfg
        self.opts = {'faults': faults, 'n_menu': n_menu, 'submit_in_nt': submit_in_nt, 'cfg': cfg, 'observe_flags': observe_flags}
        self.warm = tuple(int(v) for v in warm.split(':')) if warm else None
        self.worlds = {}
        self.canon = {}
        self.intro = {}
        self.parent = {}     # state id -> (src, op, ev, rawtape)
        self.result = Result()

    def new_world(self):
        return modelmod.make_world(self.z, DIALECT[self.cfg], self.opts)

    def history_of(self, sid):
        steps = []
        while sid in self.parent and self.parent[sid] is not None:
            src, op, ev, raw = self.parent[sid]
            steps.append((op, ev, raw))
            sid = src
        steps.reverse()
        return steps

    def run(self, outfile, on_exec, on_state=None):
        """on_exec(x: Execution) is called with x.mtrace/x.mret/x.mworld filled (None when the model failed)"""
        pending_state = None
        for rec in iterate(outfile):
            if rec[0] == 'S':
                _, sid, canon, intro = rec
                self.canon[sid] = canon
                self.intro[sid] = intro
                if sid == 0:
                    self.worlds[0] = self.new_world()
                    self.parent[0] = None
                    if on_state:
                        on_state(sid, canon, intro, self.worlds.get(sid))
                else:
                    pending_state = (sid, canon, intro)
            elif rec[0] == 'X':
                x = rec[1]
                self.result.executions += 1
                w0 = self.worlds.get(x.src)
                x.mtrace = None
                x.mret = None
                x.mworld = None
                x.index = self.result.executions
                if w0 is not None:
                    w = w0.clone()
                    try:
                        mret, mtrace = w.op(x.op, x.ev, x.tape)
                        if x.op == 'start' and self.warm:
                            # the same uncounted prefix of handled events the explorer applies after start()
                            for _ in range(self.warm[0]):
                                w.op('pe', self.warm[1], {})
                        x.mret = mret
                        x.mtrace = [Tok(t) for t in mtrace]
                        x.mworld = w
                    except modelmod.ModelError as e:
                        self.result.model_errors += 1
                        x.mtrace = None
                        x.mworld = None
                    except RecursionError:
                        self.result.model_errors += 1
                if x.dst not in self.parent:
                    self.parent[x.dst] = (x.src, x.op, x.ev, x.rawtape)
                    if x.mworld is not None:
                        self.worlds[x.dst] = x.mworld
                if pending_state is not None and pending_state[0] == x.dst:
                    if on_state:
                        on_state(pending_state[0], pending_state[1], pending_state[2], self.worlds.get(x.dst))
                    pending_state = None
                on_exec(x)
            else:
                d = rec[1]
                r = self.result
                r.states = int(d['states'])
                r.transitions = int(d['transitions'])
                r.closed = d['closed'] == '1'
                r.cap = d['cap']
                r.maxdepth = int(d['maxdepth'])
                r.pruned = int(d.get('pruned_pending', 0))
                r.wall = float(d['wall'])
        return self.result
