// C20: stored events keep their value and are destroyed exactly once.
// Exhaustive enumeration of operation sequences (depth k) over the storage-relevant API for a zoo of event
// types (size / alignment / copy-move-destructor kind), on the real back-end, under ASan + UBSan.
//   -DST_BACKEND=1 back (deque queues)  2 back (circular queues)  4 back11  5 backmp11  7 backmp11 favor_compile_time
#include <cstdio>
#include <cstdlib>
#include <cstring>
#include <cstdint>
#include <set>
#include <map>
#include <string>
#include <vector>
#include <memory>
#include <new>
#include <algorithm>
#include <boost/mpl/vector.hpp>
#include <boost/fusion/include/mpl.hpp>
#include <boost/msm/front/state_machine_def.hpp>
#include <boost/msm/front/functor_row.hpp>
#if ST_BACKEND <= 2
#include <boost/msm/back/state_machine.hpp>
#include <boost/msm/back/queue_container_circular.hpp>
#elif ST_BACKEND == 4
#include <boost/msm/back11/state_machine.hpp>
#else
#include <boost/msm/backmp11/state_machine.hpp>
#include <boost/msm/backmp11/favor_compile_time.hpp>
#endif

namespace msm = boost::msm;
namespace mpl = boost::mpl;
using msm::front::Row; using msm::front::none; using msm::front::Defer;

// ------------------------------------------------------------------------------------------------ ledger
struct Ledger {
    // addresses of tracked event objects currently constructed (a sorted vector, not std::set: the red-black tree code lives in the
    // uninstrumented libstdc++.so and would blind MemorySanitizer)
    struct Live {
        std::vector<const void*> v;
        bool insert(const void* p) { auto it = std::lower_bound(v.begin(), v.end(), p); if (it != v.end() && *it == p) return false; v.insert(it, p); return true; }
        bool erase(const void* p) { auto it = std::lower_bound(v.begin(), v.end(), p); if (it == v.end() || *it != p) return false; v.erase(it); return true; }
        bool empty() const { return v.empty(); } size_t size() const { return v.size(); } void clear() { v.clear(); }
    } live;
    std::vector<std::string> errors;
    long constructed = 0, destroyed = 0, verified = 0;
    bool sanitizer_report = false;
    void err(const std::string& s) { if (errors.size() < 20) errors.push_back(s); }
    void ctor(const void* p) { constructed++; if (!live.insert(p)) err("construction on top of a live object"); }
    void dtor(const void* p) { destroyed++; if (!live.erase(p)) err("destruction of an object that is not alive (double destroy / never constructed)"); }
    void reset() { live.clear(); errors.clear(); constructed = destroyed = verified = 0; sanitizer_report = false; }
};
static Ledger L;
extern "C" void __asan_on_error() { L.sanitizer_report = true; }

inline unsigned char pat(int serial, size_t i) { return (unsigned char)((serial * 131 + i * 7 + 13) & 0xff); }

// Kind 0: trivially copyable          1: user copy + dtor (no noexcept move => heap in backmp11)
//      2: user copy, noexcept move, dtor   3: move noexcept(false)      4: self-referential (stores this)
//      5: trivially copyable, char members only (alignment 1 and 2 are possible)
template <size_t N, size_t A, int K> struct alignas(A) Evt;

template <size_t N, size_t A> struct alignas(A) Evt<N, A, 0> {
    int serial; unsigned char bytes[N];
    explicit Evt(int s = 0) : serial(s) { for (size_t i = 0; i < N; ++i) bytes[i] = pat(s, i); }
    bool ok() const { for (size_t i = 0; i < N; ++i) if (bytes[i] != pat(serial, i)) return false; return true; }
};
template <size_t N, size_t A> struct alignas(A) Evt<N, A, 5> {
    struct Ser { unsigned char b[4]; operator int() const { return b[0] | (b[1] << 8) | (b[2] << 16) | (b[3] << 24); } } serial;
    unsigned char bytes[N];
    explicit Evt(int s = 0) { for (int i = 0; i < 4; ++i) serial.b[i] = (unsigned char)((unsigned)s >> (8 * i)); for (size_t i = 0; i < N; ++i) bytes[i] = pat(s, i); }
    bool ok() const { if (reinterpret_cast<uintptr_t>(this) % A != 0) return false; for (size_t i = 0; i < N; ++i) if (bytes[i] != pat(serial, i)) return false; return true; }
};
template <size_t N, size_t A, int K> struct alignas(A) TrackedBase {
    int serial; unsigned char bytes[N]; const TrackedBase* self;
    explicit TrackedBase(int s = 0) : serial(s), self(this) { for (size_t i = 0; i < N; ++i) bytes[i] = pat(s, i); L.ctor(this); }
    TrackedBase(const TrackedBase& o) : serial(o.serial), self(this) { std::memcpy(bytes, o.bytes, N); L.ctor(this); if (o.self != &o) L.err("copy source is not where it was constructed (relocated by memcpy?)"); }
    ~TrackedBase() { if (self != this) L.err("object destroyed at another address than it was constructed"); L.dtor(this); }
    bool ok() const {
        if (self != this) return false;
        if (reinterpret_cast<uintptr_t>(this) % A != 0) return false;
        for (size_t i = 0; i < N; ++i) if (bytes[i] != pat(serial, i)) return false; return true; }
};
template <size_t N, size_t A> struct alignas(A) Evt<N, A, 1> : TrackedBase<N, A, 1> {
    explicit Evt(int s = 0) : TrackedBase<N, A, 1>(s) {}
    Evt(const Evt& o) : TrackedBase<N, A, 1>(o) {}
};
template <size_t N, size_t A> struct alignas(A) Evt<N, A, 2> : TrackedBase<N, A, 2> {
    explicit Evt(int s = 0) : TrackedBase<N, A, 2>(s) {}
    Evt(const Evt& o) : TrackedBase<N, A, 2>(o) {}
    Evt(Evt&& o) noexcept : TrackedBase<N, A, 2>(static_cast<const TrackedBase<N, A, 2>&>(o)) {}
};
template <size_t N, size_t A> struct alignas(A) Evt<N, A, 3> : TrackedBase<N, A, 3> {
    explicit Evt(int s = 0) : TrackedBase<N, A, 3>(s) {}
    Evt(const Evt& o) : TrackedBase<N, A, 3>(o) {}
    Evt(Evt&& o) noexcept(false) : TrackedBase<N, A, 3>(static_cast<const TrackedBase<N, A, 3>&>(o)) {}
};
template <size_t N, size_t A> struct alignas(A) Evt<N, A, 4> : TrackedBase<N, A, 4> {
    explicit Evt(int s = 0) : TrackedBase<N, A, 4>(s) {}
    Evt(const Evt& o) : TrackedBase<N, A, 4>(o) {}
    Evt(Evt&& o) noexcept : TrackedBase<N, A, 4>(static_cast<const TrackedBase<N, A, 4>&>(o)) {}
};

// A second tracked event type of the *other* storage class (inline <-> heap in backmp11's pool), so that pools and queues
// hold neighbours with different control blocks / destructors: erasing from the middle move-assigns across types.
template <class E> struct AltOf;
template <size_t N, size_t A, int K> struct AltOf<Evt<N, A, K>> {
    static const bool heapish = (sizeof(Evt<N, A, K>) > 56) || K == 1 || K == 3;
    typedef typename std::conditional<heapish, Evt<8, 8, 2>, Evt<200, 8, 1>>::type type;
};

// ------------------------------------------------------------------------------------------------ machine
struct ToHold {}; struct ToIdle {}; struct ToADef {}; struct ToSub {}; struct Leave {}; struct Kick { int serial; };
static std::vector<int> g_dispatched;       // serials whose action ran, in order
static int g_bad_value = 0;

template <class E> struct Verify {
    template <class Ev, class F, class S, class T> void operator()(Ev const& e, F&, S&, T&) const {
        L.verified++;
        if (!e.ok()) g_bad_value++;
        g_dispatched.push_back(e.serial);
    }
};
template <class E> struct KickAct {   // submits an event from inside an action: stored until the step is over
    template <class Ev, class F, class S, class T> void operator()(Ev const& k, F& f, S&, T&) const { f.process_event(E(k.serial)); }
};

#if ST_BACKEND == 1
#define ST_BACK(F) msm::back::state_machine<F>
#elif ST_BACKEND == 2
#define ST_BACK(F) msm::back::state_machine<F, msm::back::queue_container_circular>
#elif ST_BACKEND == 4
#define ST_BACK(F) msm::back11::state_machine<F>
#else
struct st_cfg : msm::backmp11::state_machine_config {
#if ST_BACKEND == 7
    using compile_policy = msm::backmp11::favor_compile_time;
#endif
};
#define ST_BACK(F) msm::backmp11::state_machine<F, st_cfg>
#endif

template <class E> struct Sub_ : msm::front::state_machine_def<Sub_<E>> {
    typedef typename AltOf<E>::type Alt;
    struct In : msm::front::state<> { typedef mpl::vector<E> deferred_events; };
    struct In2 : msm::front::state<> {};
    typedef In initial_state;
    struct transition_table : mpl::vector<
        Row<In, ToIdle, In2, none, none>,
        Row<In2, E, none, Verify<E>, none>,
        Row<In, Alt, none, Verify<Alt>, none>,
        Row<In2, ToHold, In, none, none> > {};
    template <class F, class Ev> void no_transition(Ev const&, F&, int) {}
};
template <class E> struct Front_ : msm::front::state_machine_def<Front_<E>> {
    typedef ST_BACK(Sub_<E>) Sub;
    typedef typename AltOf<E>::type Alt;
    struct Idle : msm::front::state<> {};
    struct Hold : msm::front::state<> { typedef mpl::vector<E> deferred_events; };
    struct ADef : msm::front::state<> {};
    typedef Idle initial_state;
    struct transition_table : mpl::vector<
        Row<Idle, E, none, Verify<E>, none>,
        Row<Idle, Alt, none, Verify<Alt>, none>,
        Row<Hold, Alt, none, Verify<Alt>, none>,
        Row<Idle, Kick, none, KickAct<E>, none>,
        Row<Idle, ToHold, Hold, none, none>,
        Row<Hold, ToIdle, Idle, none, none>,
        Row<Idle, ToADef, ADef, none, none>,
        Row<ADef, ToIdle, Idle, none, none>,
        Row<ADef, E, none, Defer, none>,
        Row<Idle, ToSub, Sub, none, none>,
        Row<Sub, Leave, Idle, none, none> > {};
    template <class F, class Ev> void no_transition(Ev const&, F&, int) {}
};
#if ST_BACKEND == 7
#define ST_GEN(E) BOOST_MSM_BACKMP11_GENERATE_STATE_MACHINE(ST_BACK(Front_<E>)) BOOST_MSM_BACKMP11_GENERATE_STATE_MACHINE(ST_BACK(Sub_<E>))
#else
#define ST_GEN(E)
#endif

enum Op { ENQ, ENQALT, ENQIDLE, PE, KICK, TOHOLD, TOIDLE, TOADEF, TOSUB, LEAVE, DRAIN, SINGLE, COPYC, COPYA, MOVEC, MOVEA, CLEAR, STOP, NOPS };
static const char* OPN[] = {"enqueue", "enqueue-alt", "enqueue-toIdle", "process", "kick", "toHold", "toIdle", "toADef", "toSub", "leave", "drain", "single", "copy-construct", "copy-assign",
                            "move-construct", "move-assign", "clear", "stop"};

template <class SM> void prepare(SM& m) {
#if ST_BACKEND == 2
    m.get_message_queue().set_capacity(32); m.get_deferred_queue().set_capacity(32);
    auto& s = m.template get_state<typename SM::Sub&>();
    s.get_message_queue().set_capacity(32); s.get_deferred_queue().set_capacity(32);
#else
    (void)m;
#endif
}

template <class E> struct Runner {
    typedef ST_BACK(Front_<E>) SM;
    typedef typename AltOf<E>::type Alt;
    static bool op_ok(int op) {
#if ST_BACKEND <= 4
        if (op == MOVEC || op == MOVEA) return false;
#endif
        return op < NOPS;
    }
    // returns number of problems of one sequence
    static int run(const std::vector<int>& seq, std::string& why) {
        L.reset(); g_dispatched.clear(); g_bad_value = 0;
        int serial = 1; int problems = 0;
        std::vector<int> submitted_alive;   // not needed for the oracle, kept for the replay print
        {
            std::vector<std::unique_ptr<SM>> all;
            all.emplace_back(new SM()); prepare(*all.back());
            SM* cur = all.back().get();
            cur->start();
            bool stopped = false;
            for (int op : seq) {
                if (stopped && op != COPYC && op != COPYA) continue;
                switch (op) {
                case ENQ: cur->enqueue_event(E(serial++)); break;
                case ENQALT: cur->enqueue_event(Alt(serial++)); break;      // other storage class, handled where E is deferred
                case ENQIDLE: cur->enqueue_event(ToIdle()); break;          // trivial empty event between tracked ones; releases the deferred ones
                case PE: cur->process_event(E(serial++)); break;
                case KICK: cur->process_event(Kick{serial++}); break;
                case TOHOLD: cur->process_event(ToHold()); break;
                case TOIDLE: cur->process_event(ToIdle()); break;
                case TOADEF: cur->process_event(ToADef()); break;
                case TOSUB: cur->process_event(ToSub()); break;
                case LEAVE: cur->process_event(Leave()); break;
#if ST_BACKEND <= 4
                case DRAIN: cur->execute_queued_events(); break;
                case SINGLE: if (cur->get_message_queue_size() > 0) cur->execute_single_queued_event(); break;
                case CLEAR: cur->get_message_queue().clear(); cur->clear_deferred_queue(); break;
#else
                case DRAIN: cur->process_event_pool(); break;
                case SINGLE: cur->process_event_pool(1); break;
                case CLEAR: cur->get_event_pool().events.clear(); break;
                case MOVEC: { all.emplace_back(new SM(std::move(*cur))); cur = all.back().get(); break; }
                case MOVEA: { all.emplace_back(new SM()); prepare(*all.back()); *all.back() = std::move(*cur); cur = all.back().get(); break; }
#endif
                case COPYC: { const SM& src = *cur; all.emplace_back(new SM(src)); cur = all.back().get(); break; }
                case COPYA: { const SM& src = *cur; all.emplace_back(new SM()); prepare(*all.back()); *all.back() = src; cur = all.back().get(); break; }
                case STOP: cur->stop(); stopped = true; break;
                default: break;
                }
            }
            // machines are destroyed with whatever is still pending
        }
        if (!L.live.empty()) { problems++; why += " tracked event objects still alive after every machine was destroyed: " + std::to_string(L.live.size()) + ";"; }
        for (auto& e : L.errors) { problems++; why += " " + e + ";"; }
        if (g_bad_value) { problems++; why += " a dispatched event did not equal the submitted one (checksum / self pointer / alignment);"; }
        if (L.sanitizer_report) { problems++; why += " sanitizer report;"; }
        // each serial is dispatched at most once per machine lineage; after a copy both machines may legitimately
        // dispatch their own copy, so only duplicates without any copy in the sequence are an error
        bool has_copy = false; for (int op : seq) if (op == COPYC || op == COPYA) has_copy = true;
        if (!has_copy) {
            std::vector<int> seen(g_dispatched); std::sort(seen.begin(), seen.end());
            auto dup = std::adjacent_find(seen.begin(), seen.end());
            if (dup != seen.end()) { problems++; why += " event #" + std::to_string(*dup) + " dispatched twice;"; }
        }
        return problems;
    }
    static void explore(int depth, const char* tname, long& nseq, long& nbad, long& nverified, std::vector<std::string>& reports, std::vector<std::string>& samples) {
        std::vector<int> seq;
        std::vector<int> ops; for (int o = 0; o < NOPS; ++o) if (op_ok(o)) ops.push_back(o);
        // iterative enumeration of all sequences of exactly `depth` operations
        std::vector<size_t> idx(depth, 0);
        while (true) {
            seq.clear(); for (int d = 0; d < depth; ++d) seq.push_back(ops[idx[d]]);
            std::string why; int p = run(seq, why);
            nseq++; nverified += L.verified;
            if (p) {
                nbad++;
                if (reports.size() < 8) { std::string s = std::string(tname) + ":"; for (int o : seq) s += std::string(" ") + OPN[o]; reports.push_back(s + " =>" + why); }
            } else if (samples.size() < 2 && L.verified > 0) {
                std::string s = std::string(tname) + ":"; for (int o : seq) s += std::string(" ") + OPN[o]; samples.push_back(s);
            }
            int d = depth - 1;
            while (d >= 0 && ++idx[d] == ops.size()) { idx[d] = 0; --d; }
            if (d < 0) break;
        }
    }
    static int replay(const std::vector<int>& seq) { std::string why; int p = run(seq, why); printf("%s\n", p ? why.c_str() : "ok"); return p; }
};

#include "types.inc"    // generated: ST_TYPES(X) list of event types, ST_GEN instantiations

int main(int argc, char** argv) {
    int depth = argc > 1 ? atoi(argv[1]) : 3;
    const char* only = argc > 2 ? argv[2] : nullptr;
    long nseq = 0, nbad = 0, nverified = 0; std::vector<std::string> reports, samples; int ntypes = 0;
    if (only && std::string(only) == "--replay") {
        // --replay <typename> op op op ...
        std::string tn = argv[3]; std::vector<int> seq;
        for (int i = 4; i < argc; ++i) for (int o = 0; o < NOPS; ++o) if (std::string(argv[i]) == OPN[o]) seq.push_back(o);
#define X(T, NAME) if (tn == NAME) return Runner<T>::replay(seq) ? 1 : 0;
        ST_TYPES(X)
#undef X
        return 2;
    }
#define X(T, NAME) { ntypes++; Runner<T>::explore(depth, NAME, nseq, nbad, nverified, reports, samples); }
    ST_TYPES(X)
#undef X
    printf("RESULT backend=%d depth=%d types=%d sequences=%ld bad=%ld verified_dispatches=%ld\n", ST_BACKEND, depth, ntypes, nseq, nbad, nverified);
    for (auto& r : reports) printf("BAD %s\n", r.c_str());
    for (auto& s : samples) printf("SAMPLE %s\n", s.c_str());
    return nbad ? 1 : 0;
}
