// Read-only views of the library's private state (compiled with -fno-access-control, which changes
// no semantics): active ids, history memory, queues, processing flag.  One API for the three families.
#pragma once
#include <sstream>

namespace vf {

template <class T> inline std::string join_ints(const T* p, int n) {
    std::string r;
    for (int i = 0; i < n; ++i) { if (i) r += ','; r += std::to_string((int)p[i]); }
    return r;
}

#if VF_FAMILY != 3
// ---- history memory ----
template <int N> inline std::string hist_str(const boost::msm::back::NoHistoryImpl<N>& h) { return "n" + join_ints(h.m_initialStates, N); }
template <int N> inline std::string hist_str(const boost::msm::back::AlwaysHistoryImpl<N>& h) { return "a" + join_ints(h.m_initialStates, N); }
template <class Ev, int N> inline std::string hist_str(const boost::msm::back::ShallowHistoryImpl<Ev, N>& h) {
    return "s" + join_ints(h.m_initialStates, N) + "/" + join_ints(h.m_currentStates, N);
}
// ---- deferred queue (present only when the machine has deferring states) ----
template <class H> inline auto defq_str(const H& h, int) -> decltype(h.m_cur_seq, std::string()) {
    std::string r = "[";
    for (auto it = h.m_deferred_events_queue.begin(); it != h.m_deferred_events_queue.end(); ++it) {
        if (r.size() > 1) r += ',';
        r += std::to_string((int)(signed char)(it->second - h.m_cur_seq));
    }
    r += "]";
    return r;
}
template <class H> inline std::string defq_str(const H&, long) { return "-"; }
template <class H> inline auto defq_seq(const H& h, int) -> decltype(h.m_cur_seq, 0) { return (int)h.m_cur_seq; }
template <class H> inline int defq_seq(const H&, long) { return 0; }

template <class SM> inline std::string snap_machine(SM& m, int mid) {
    std::string s = "M" + std::to_string(mid);
    s += ":a=" + join_ints(m.m_states, SM::nr_regions::value);
    s += ":h=" + hist_str(m.m_history);
    s += ":p=" + std::to_string((int)m.m_event_processing);
    s += ":q=" + std::to_string((int)m.m_events_queue.m_events_queue.size());
    s += ":d=" + defq_str(m.m_deferred_events_queue, 0);
    return s;
}
template <class SM> inline int raw_seq(SM& m) { return defq_seq(m.m_deferred_events_queue, 0); }
template <class SM> inline int own_queue_size(SM& m) { return (int)m.m_events_queue.m_events_queue.size(); }
template <class H> inline auto defq_cap(H& h, int n, int) -> decltype(h.m_cur_seq, void()) { h.m_deferred_events_queue.set_capacity(n); }
template <class H> inline void defq_cap(H&, int, long) {}
template <class SM> inline void set_capacity(SM& m, int n) {
    m.get_message_queue().set_capacity(n);
    defq_cap(m.m_deferred_events_queue, n, 0);
}

// ---- actual content and order of the library's queues (back / back11): the queued boost::function objects
// wrap bind(pf, this, event, source); the event copy and the bound machine pointer are read out of the bind object
template <class SM, class E, class Fn> inline bool peek_bound(const Fn& f, int& eid, int& serial, const void*& bound) {
    using boost::msm::back::execute_return; using boost::msm::back::EventSource;
    {
        typedef execute_return (SM::*PF)(E const&, EventSource);
        typedef decltype(boost::bind(PF(), (SM*)nullptr, std::declval<E>(), EventSource())) B;
        if (const B* b = f.template target<B>()) { eid = E::eid; serial = b->l_.a2_.get().serial; bound = b->l_.a1_.get(); return true; }
    }
    {
        typedef execute_return (SM::*PF)(E&, EventSource);
        typedef decltype(boost::bind(PF(), (SM*)nullptr, std::declval<E>(), EventSource())) B;
        if (const B* b = f.template target<B>()) { eid = E::eid; serial = b->l_.a2_.get().serial; bound = b->l_.a1_.get(); return true; }
    }
    return false;
}
struct QItem { int eid; int serial; bool foreign; };
template <class SM, class E> inline void scan_queues(SM& m, std::vector<QItem>& mq, std::vector<QItem>& dq, std::vector<bool>& mq_done, std::vector<bool>& dq_done, long) {
    size_t i = 0;
    for (auto it = m.m_events_queue.m_events_queue.begin(); it != m.m_events_queue.m_events_queue.end(); ++it, ++i) {
        if (mq_done[i]) continue;
        int eid, ser; const void* b;
        if (peek_bound<SM, E>(*it, eid, ser, b)) { mq[i] = QItem{eid, ser, b != (const void*)&m}; mq_done[i] = true; }
    }
}
template <class SM, class E, class H> inline auto scan_defq(SM& m, H& h, std::vector<QItem>& dq, std::vector<bool>& dq_done, int) -> decltype(h.m_cur_seq, void()) {
    size_t i = 0;
    for (auto it = h.m_deferred_events_queue.begin(); it != h.m_deferred_events_queue.end(); ++it, ++i) {
        if (dq_done[i]) continue;
        int eid, ser; const void* b;
        if (peek_bound<SM, E>(it->first, eid, ser, b)) { dq[i] = QItem{eid, ser, b != (const void*)&m}; dq_done[i] = true; }
    }
}
template <class SM, class E, class H> inline void scan_defq(SM&, H&, std::vector<QItem>&, std::vector<bool>&, long) {}
template <class H> inline auto defq_size(H& h, int) -> decltype(h.m_cur_seq, size_t()) { return h.m_deferred_events_queue.size(); }
template <class H> inline size_t defq_size(H&, long) { return 0; }

template <class SM> inline std::string visit_ids(SM& m) {
    Visitor v;
    m.visit_current_states(boost::ref(v));
    std::string r = "v";
    for (int i : v.ids) r += std::to_string(i) + ",";
    return r + "|";
}
template <class SM> inline std::string byid_ids(SM& m, int nstates) {
    std::string r = "i";
    for (int i = 0; i < nstates; ++i) {
        const VBase* b = m.get_state_by_id(i);
        r += std::to_string(b ? b->vsid() : -9) + ",";
    }
    return r + "|";
}
#else
// ---- backmp11 ----
template <class H> inline auto hist_str_mp(const H& h, int) -> decltype(h.m_last_active_state_ids, std::string()) {
    return "l" + join_ints(h.m_last_active_state_ids.data(), (int)h.m_last_active_state_ids.size());
}
template <class H> inline std::string hist_str_mp(const H&, long) { return "n"; }

template <class SM> inline std::string snap_machine(SM& m, int mid) {
    std::string s = "M" + std::to_string(mid);
    s += ":a=" + join_ints(m.m_active_state_ids.data(), (int)m.m_active_state_ids.size());
    s += ":h=" + hist_str_mp(m.m_history, 0);
    s += ":p=" + std::to_string((int)m.m_event_processing);
    s += ":r=" + std::to_string((int)m.m_running);
    auto& pool = m.get_event_pool();
    int live = 0, marked = 0;
    for (auto& e : pool.events) { if ((*e).marked_for_deletion()) marked++; else live++; }
    s += ":q=" + std::to_string(live) + ":k=" + std::to_string(marked);
    return s;
}
template <class SM> inline int raw_seq(SM& m) { return (int)m.get_event_pool().cur_seq_cnt; }
template <class SM> inline int own_queue_size(SM& m) { int n = 0; for (auto& e : m.get_event_pool().events) if (!(*e).marked_for_deletion()) n++; return n; }

// serials of pool entries that were already processed but not yet erased (lazy deletion)
template <class SM, class E> inline void collect_marked(SM& m, std::set<int>& out) {
    using namespace boost::msm::backmp11::detail;
    for (auto& pe : m.get_event_pool().events) {
        event_occurrence& occ = *pe;
        if (occ.m_process_fn == &deferred_event<E>::template try_process<SM>) {
            auto& d = static_cast<deferred_event<E>&>(occ);
            if (occ.marked_for_deletion()) out.insert(evinfo<E>::serial(d.m_event));
        }
    }
}
struct QItem { int eid; int serial; bool foreign; };
template <class SM, class E> inline void scan_pool(SM& m, std::vector<QItem>& q, std::vector<bool>& done) {
    using namespace boost::msm::backmp11::detail;
    size_t i = 0;
    for (auto& pe : m.get_event_pool().events) {
        event_occurrence& occ = *pe;
        if (!done[i] && occ.m_process_fn == &deferred_event<E>::template try_process<SM>) {
            auto& d = static_cast<deferred_event<E>&>(occ);
            q[i] = QItem{occ.marked_for_deletion() ? -2 : evinfo<E>::eid(d.m_event) % 1000, evinfo<E>::serial(d.m_event), false};
            done[i] = true;
        }
        ++i;
    }
}
struct Mp11Visitor {
    std::string* out;
    template <class S> void operator()(S& s) { *out += std::to_string(s.vsid()) + ","; }
};
template <class SM> inline std::string visit_mp11(SM& m) {
    using boost::msm::backmp11::visit_mode;
    std::string r = "ar=";
    m.template visit<visit_mode::active_recursive>(Mp11Visitor{&r});
    r += "|an=";
    m.template visit<visit_mode::active_non_recursive>(Mp11Visitor{&r});
    r += "|lr=";
    m.template visit<visit_mode::all_recursive>(Mp11Visitor{&r});
    r += "|ln=";
    m.template visit<visit_mode::all_non_recursive>(Mp11Visitor{&r});
    r += "|";
    return r;
}
#endif

} // namespace vf
