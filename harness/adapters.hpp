// Read-only views of the library's state: active ids, history memory, queues, processing flag.  One API for the
// three families.  Public accessors are used wherever the library offers them (current_state(), get_message_queue(),
// get_deferred_queue(), get_active_state_ids(), get_event_pool()); private members (the TU is compiled with
// -fno-access-control, which changes no semantics) are reached through detection so that a renamed or removed private
// member degrades the state description ("?" in the canonical state: fewer states are told apart, nothing is
// misjudged) instead of breaking the build.  `vf::caps()` reports what was found.
#pragma once
#include <sstream>
#include <type_traits>

#define VF_DETECT(NAME, EXPR) \
    template <class T, class = void> struct NAME : std::false_type {}; \
    template <class T> struct NAME<T, std::void_t<decltype(EXPR)>> : std::true_type {};

namespace vf {
inline std::string& caps_missing() { static std::string s; return s; }
inline void cap_missing(const char* what) { if (caps_missing().find(what) == std::string::npos) caps_missing() += std::string(what) + " "; }
VF_DETECT(has_evproc, std::declval<T&>().m_event_processing)
VF_DETECT(has_running, std::declval<T&>().m_running)
VF_DETECT(has_history, std::declval<T&>().m_history)
VF_DETECT(has_initialStates, std::declval<T&>().m_initialStates)
VF_DETECT(has_currentStates, std::declval<T&>().m_currentStates)
VF_DETECT(has_last_active, std::declval<T&>().m_last_active_state_ids)
VF_DETECT(has_cur_seq, std::declval<T&>().m_deferred_events_queue.m_cur_seq)
VF_DETECT(has_marked, std::declval<T&>().marked_for_deletion())
// backmp11 keeps processed pool entries as tombstones until it compacts the pool; without the accessor that tells them apart
// every entry counts as pending (reported: comparisons of pending sets are skipped for backmp11 then)
template <class Occ> inline bool is_marked(Occ& occ) {
    if constexpr (has_marked<Occ>::value) return occ.marked_for_deletion();
    else { cap_missing("pool_tombstones"); return false; }
}
template <class SM> inline std::string evproc_str(SM& m) {
    if constexpr (has_evproc<SM>::value) return std::to_string((int)m.m_event_processing);
    else { cap_missing("event_processing_flag"); return "0"; }
}

template <class T> inline std::string join_ints(const T* p, int n) {
    std::string r;
    for (int i = 0; i < n; ++i) { if (i) r += ','; r += std::to_string((int)p[i]); }
    return r;
}

#if VF_FAMILY != 3
#if VF_FAMILY == 1
template <class SM> struct has_deferral : boost::msm::back::has_fsm_deferred_events<SM>::type {};
#else
template <class SM> struct has_deferral : boost::msm::back11::has_fsm_deferred_events<SM>::type {};
#endif
// ---- history memory ----
template <class H> inline std::string hist_members(const H& h, int n, const char* tag) {
    std::string r = tag;
    if constexpr (has_initialStates<H>::value) r += join_ints(h.m_initialStates, n); else { cap_missing("history_memory"); r += "?"; }
    if constexpr (has_currentStates<H>::value) r += "/" + join_ints(h.m_currentStates, n);
    return r;
}
template <int N> inline std::string hist_str(const boost::msm::back::NoHistoryImpl<N>& h) { return hist_members(h, N, "n"); }
template <int N> inline std::string hist_str(const boost::msm::back::AlwaysHistoryImpl<N>& h) { return hist_members(h, N, "a"); }
template <class Ev, int N> inline std::string hist_str(const boost::msm::back::ShallowHistoryImpl<Ev, N>& h) {
    if constexpr (!has_currentStates<boost::msm::back::ShallowHistoryImpl<Ev, N>>::value) cap_missing("history_memory");
    return hist_members(h, N, "s");
}
// ---- deferred queue (present only when the machine has deferring states): public accessor; the current sequence
// number is private -- without it the numbers are given relative to the newest entry
template <class SM> inline int defq_seq(SM& m) {
    if constexpr (has_deferral<SM>::value) {
        if constexpr (has_cur_seq<SM>::value) return (int)m.m_deferred_events_queue.m_cur_seq;
        else {
            cap_missing("deferral_sequence_counter");
            int mx = 0; bool any = false;
            for (auto it = m.get_deferred_queue().begin(); it != m.get_deferred_queue().end(); ++it) { if (!any || (signed char)(it->second - mx) > 0) mx = it->second; any = true; }
            return mx;
        }
    } else return 0;
}
template <class SM> inline std::string defq_str(SM& m) {
    if constexpr (has_deferral<SM>::value) {
        std::string r = "["; int cur = defq_seq(m);
        for (auto it = m.get_deferred_queue().begin(); it != m.get_deferred_queue().end(); ++it) {
            if (r.size() > 1) r += ',';
            r += std::to_string((int)(signed char)(it->second - cur));
        }
        return r + "]";
    } else return "-";
}
template <class SM> inline size_t defq_size(SM& m) { if constexpr (has_deferral<SM>::value) return m.get_deferred_queue().size(); else return 0; }

template <class SM> inline std::string snap_machine(SM& m, int mid) {
    std::string s = "M" + std::to_string(mid);
    s += ":a=" + join_ints(m.current_state(), SM::nr_regions::value);
    if constexpr (has_history<SM>::value) s += ":h=" + hist_str(m.m_history); else { cap_missing("history_memory"); s += ":h=?"; }
    s += ":p=" + evproc_str(m);
    s += ":q=" + std::to_string((int)m.get_message_queue_size());
    s += ":d=" + defq_str(m);
    return s;
}
template <class SM> inline int raw_seq(SM& m) { return defq_seq(m); }
template <class SM> inline int own_queue_size(SM& m) { return (int)m.get_message_queue_size(); }
template <class SM> inline void set_capacity(SM& m, int n) {
    m.get_message_queue().set_capacity(n);
    if constexpr (has_deferral<SM>::value) m.get_deferred_queue().set_capacity(n);
}

// ---- actual content and order of the library's queues (back / back11): the queued boost::function objects
// wrap bind(pf, this, event, source); the event copy and the bound machine pointer are read out of the bind object
template <class SM, class E, class Fn> inline bool peek_bound(const Fn& f, int& eid, int& serial, const void*& bound) {
    using boost::msm::back::execute_return; using boost::msm::back::EventSource;
    {
        typedef execute_return (SM::*PF)(E const&, EventSource);
        typedef decltype(boost::bind(PF(), (SM*)nullptr, std::declval<E>(), EventSource())) B;
        if (const B* b = f.template target<B>()) { eid = E::eid; serial = b->l_.a2_.get().serial; bound = b->l_.a1_.get(); return true; }
    }
    {
        typedef execute_return (SM::*PF)(E&, EventSource);
        typedef decltype(boost::bind(PF(), (SM*)nullptr, std::declval<E>(), EventSource())) B;
        if (const B* b = f.template target<B>()) { eid = E::eid; serial = b->l_.a2_.get().serial; bound = b->l_.a1_.get(); return true; }
    }
    return false;
}
struct QItem { int eid; int serial; bool foreign; };
template <class SM, class E> inline void scan_queues(SM& m, std::vector<QItem>& mq, std::vector<bool>& mq_done) {
    size_t i = 0;
    for (auto it = m.get_message_queue().begin(); it != m.get_message_queue().end(); ++it, ++i) {
        if (mq_done[i]) continue;
        int eid, ser; const void* b;
        if (peek_bound<SM, E>(*it, eid, ser, b)) { mq[i] = QItem{eid, ser, b != (const void*)&m}; mq_done[i] = true; }
    }
}
template <class SM, class E> inline void scan_defq(SM& m, std::vector<QItem>& dq, std::vector<bool>& dq_done) {
    if constexpr (has_deferral<SM>::value) {
        size_t i = 0;
        for (auto it = m.get_deferred_queue().begin(); it != m.get_deferred_queue().end(); ++it, ++i) {
            if (dq_done[i]) continue;
            int eid, ser; const void* b;
            if (peek_bound<SM, E>(it->first, eid, ser, b)) { dq[i] = QItem{eid, ser, b != (const void*)&m}; dq_done[i] = true; }
        }
    }
}

template <class SM> inline std::string visit_ids(SM& m) {
    Visitor v;
    m.visit_current_states(boost::ref(v));
    std::string r = "v";
    for (int i : v.ids) r += std::to_string(i) + ",";
    return r + "|";
}
template <class SM> inline std::string byid_ids(SM& m, int nstates) {
    std::string r = "i";
    for (int i = 0; i < nstates; ++i) {
        const VBase* b = m.get_state_by_id(i);
        r += std::to_string(b ? b->vsid() : -9) + ",";
    }
    return r + "|";
}
#else
// ---- backmp11 ----
template <class H> inline auto hist_str_mp(const H& h, int) -> decltype(h.m_last_active_state_ids, std::string()) {
    return "l" + join_ints(h.m_last_active_state_ids.data(), (int)h.m_last_active_state_ids.size());
}
// no such member: either the machine has no history (nothing to remember) or the member was renamed; an empty history
// object holds no memory, anything else is reported as unknown
template <class H> inline std::string hist_str_mp(const H&, long) { if (!std::is_empty<H>::value) { cap_missing("history_memory"); return "?"; } return "n"; }

template <class SM> inline std::string snap_machine(SM& m, int mid) {
    std::string s = "M" + std::to_string(mid);
    s += ":a=" + join_ints(m.get_active_state_ids().data(), (int)m.get_active_state_ids().size());
    if constexpr (has_history<SM>::value) s += ":h=" + hist_str_mp(m.m_history, 0); else { cap_missing("history_memory"); s += ":h=?"; }
    s += ":p=" + evproc_str(m);
    if constexpr (has_running<SM>::value) s += ":r=" + std::to_string((int)m.m_running); else { cap_missing("running_flag"); s += ":r=?"; }
    auto& pool = m.get_event_pool();
    int live = 0, marked = 0;
    for (auto& e : pool.events) { if (is_marked(*e)) marked++; else live++; }
    s += ":q=" + std::to_string(live) + ":k=" + std::to_string(marked);
    return s;
}
template <class SM> inline int raw_seq(SM& m) { return (int)m.get_event_pool().cur_seq_cnt; }
template <class SM> inline int own_queue_size(SM& m) { int n = 0; for (auto& e : m.get_event_pool().events) if (!is_marked(*e)) n++; return n; }

// serials of pool entries that were already processed but not yet erased (lazy deletion)
template <class SM, class E> inline void collect_marked(SM& m, std::set<int>& out) {
    using namespace boost::msm::backmp11::detail;
    for (auto& pe : m.get_event_pool().events) {
        event_occurrence& occ = *pe;
        if (occ.m_process_fn == &deferred_event<E>::template try_process<SM>) {
            auto& d = static_cast<deferred_event<E>&>(occ);
            if (is_marked(occ)) out.insert(evinfo<E>::serial(d.m_event));
        }
    }
}
struct QItem { int eid; int serial; bool foreign; };
template <class SM, class E> inline void scan_pool(SM& m, std::vector<QItem>& q, std::vector<bool>& done) {
    using namespace boost::msm::backmp11::detail;
    size_t i = 0;
    for (auto& pe : m.get_event_pool().events) {
        event_occurrence& occ = *pe;
        if (!done[i] && occ.m_process_fn == &deferred_event<E>::template try_process<SM>) {
            auto& d = static_cast<deferred_event<E>&>(occ);
            q[i] = QItem{is_marked(occ) ? -2 : evinfo<E>::eid(d.m_event) % 1000, evinfo<E>::serial(d.m_event), false};
            done[i] = true;
        }
        ++i;
    }
}
struct Mp11Visitor {
    std::string* out;
    template <class S> void operator()(S& s) { *out += std::to_string(s.vsid()) + ","; }
};
template <class SM> inline std::string visit_mp11(SM& m) {
    using boost::msm::backmp11::visit_mode;
    std::string r = "ar=";
    m.template visit<visit_mode::active_recursive>(Mp11Visitor{&r});
    r += "|an=";
    m.template visit<visit_mode::active_non_recursive>(Mp11Visitor{&r});
    r += "|lr=";
    m.template visit<visit_mode::all_recursive>(Mp11Visitor{&r});
    r += "|ln=";
    m.template visit<visit_mode::all_non_recursive>(Mp11Visitor{&r});
    r += "|";
    return r;
}
#endif

} // namespace vf
