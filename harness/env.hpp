// Environment owned by the explorer: every source of nondeterminism the machines under test can
// observe (guard answers, "throw here?", "submit another event here?") goes through Env::choose().
// The callback log, the event-copy ledger and the entry/exit ledger live here too.
#pragma once
#include <cstdio>
#include <cstdlib>
#include <cstring>
#include <map>
#include <set>
#include <stdexcept>
#include <string>
#include <vector>
#include <typeinfo>
#include <type_traits>

namespace zoo { inline bool vf_isbase(int base, int derived); }   // generated: is event type `base` a strict base class of `derived`
namespace vf {

struct Nondeterminism { std::string what; };

struct Choice {
    std::string label;  // semantic label, unique within one operation
    int n;              // arity
    int chosen;         // alternative taken
    char kind;          // 'g' guard answer, 'p' callback position (throw/submit), 'd' is_event_deferred answer
};

struct Env {
    // ---- choice tape (positional for the DFS, labelled for the model) ----
    std::vector<int> prefix;          // alternatives to replay for the current operation
    std::vector<std::string> prefix_labels; // optional: labels expected while replaying (determinism guard)
    std::vector<Choice> choices;      // what was asked during the current operation
    std::map<std::string,int> labelmap; // answers by label (lock-step mode: same answers for every configuration)
    bool use_labels = false;
    bool recording = false;           // false while replaying the history prefix operations with full tapes
    // ---- configuration of deviation points ----
    bool faults = false;              // callback positions may throw
    int  n_menu = 0;                  // number of nested-submission alternatives per position
    bool submit_in_nt = false;        // no_transition positions may submit too
    bool observe_flags = false;       // log flag values inside callbacks
    // ---- log ----
    std::string trace;                // space separated tokens of the current operation
    std::map<std::string,int> occ;    // occurrence counters for labels (per operation)
    // ---- ledgers (persist across operations of one history) ----
    int next_serial = 1;
    std::map<int,int> live;           // serial -> number of live copies
    std::map<int,int> parity;         // state sid -> entries minus exits
    std::map<int,int> entries;        // state sid -> number of entries so far
    std::vector<int> submitted;       // serials in submission order
    std::map<int,int> serial_type;    // serial -> event id
    struct CM { int src; int cnt; int ans; };
    std::map<int,CM> cmemo;           // completion guard id -> answer fixed for the current entry of its source state
    bool ledger_error = false; std::string ledger_msg;
    // copy mode (C15): address ranges of the machine objects, to attribute every callback to an instance
    const char* inst_lo[2] = {nullptr, nullptr}; const char* inst_hi[2] = {nullptr, nullptr}; bool copy_mode = false;
    int inst_of(const void* p) const {
        const char* c = static_cast<const char*>(p);
        for (int i = 0; i < 2; ++i) if (inst_lo[i] && c >= inst_lo[i] && c < inst_hi[i]) return i;
        return 2;
    }
    int depth_in_callback = 0;
    int uncaught_escape = 0;

    void reset_all() {
        prefix.clear(); prefix_labels.clear(); choices.clear(); trace.clear(); occ.clear();
        next_serial = 1; live.clear(); parity.clear(); entries.clear(); submitted.clear(); serial_type.clear();
        cmemo.clear(); ledger_error = false; ledger_msg.clear();
    }
    void begin_op(const std::vector<int>& tape) {
        prefix = tape; choices.clear(); trace.clear(); occ.clear();
    }
    int choose(const std::string& label, int n, char kind) {
        size_t pos = choices.size();
        int c = 0;
        if (use_labels) {
            auto it = labelmap.find(label);
            if (it != labelmap.end()) c = it->second;
            if (c >= n || c < 0) throw Nondeterminism{"choice " + label + " arity " + std::to_string(n) + " but answer " + std::to_string(c)};
        } else if (pos < prefix.size()) {
            c = prefix[pos];
            if (c >= n || c < 0) throw Nondeterminism{"choice " + label + " arity " + std::to_string(n) + " but tape says " + std::to_string(c)};
            if (pos < prefix_labels.size() && prefix_labels[pos] != label)
                throw Nondeterminism{"label mismatch at " + std::to_string(pos) + ": " + prefix_labels[pos] + " vs " + label};
        }
        choices.push_back(Choice{label, n, c, kind});
        return c;
    }
    int occurrence(const std::string& key) { return occ[key]++; }
    void tok(const std::string& t) { if (!trace.empty()) trace += ' '; trace += t; }
    int new_serial(int eid) { int s = next_serial++; serial_type[s] = eid; submitted.push_back(s); return s; }
};

inline Env& env() { static Env e; return e; }

// ---------------------------------------------------------------------------------------------
// Events. Every event carries a serial and a payload word; copies are counted per serial so that
// "stored somewhere inside the library" is observable without trusting the library's own counters.
struct EvBase {
    // dynamic type of the event object (overridden by every generated event type): a behaviour that is handed a base-class
    // reference must still see the object that was submitted, not a sliced copy
    virtual int dyn() const { return -1; }
    int serial; int pay;
    EvBase() : serial(-1), pay(0) {}
    EvBase(int s, int p) : serial(s), pay(p) { if (serial >= 0) env().live[serial]++; }
    EvBase(const EvBase& o) : serial(o.serial), pay(o.pay) { if (serial >= 0) env().live[serial]++; }
    EvBase& operator=(const EvBase& o) {
        if (this != &o) {
            if (serial >= 0) env().live[serial]--;
            serial = o.serial; pay = o.pay;
            if (serial >= 0) env().live[serial]++;
        }
        return *this;
    }
    ~EvBase() { if (serial >= 0) env().live[serial]--; }
};

inline int paycheck(int serial) { return (serial * 2654435761u) & 0x7fffffff; }

template <class E, class Enable = void> struct evinfo {
    // library-internal events (InitEvent, ExitEvent, starting, stopping, ...)
    static int eid(const E&) { return -1; }
    static int serial(const E&) { return -1; }
    static int pay(const E&) { return 0; }
};
template <class T> struct vf_void { typedef void type; };
// back / back11 wrap the event in direct_entry_event<> for explicit entry, fork and entry points
template <class E> struct evinfo<E, typename vf_void<typename E::contained_event>::type> {
    typedef typename E::contained_event I;
    static int eid(const E& e) { return 2000 + evinfo<I>::eid(e.m_event); }
    static int serial(const E& e) { return evinfo<I>::serial(e.m_event); }
    static int pay(const E& e) { return evinfo<I>::pay(e.m_event); }
};
template <class E> struct evinfo<E, typename std::enable_if<std::is_base_of<EvBase, E>::value>::type> {
    static int eid(const E&) { return E::eid; }
    static int serial(const E& e) { return e.serial; }
    static int pay(const E& e) { return e.pay; }
    static int dyn(const E& e) { return e.dyn(); }
};
template <class E, class = void> struct has_dyn : std::false_type {};
template <class E> struct has_dyn<E, typename vf_void<decltype(evinfo<E>::dyn(std::declval<const E&>()))>::type> : std::true_type {};

// hook for Kleene rows: generated code resolves an any to (eid, serial, pay, exact-type-ok)
struct AnyInfo { int eid; int serial; int pay; };

template <class E> inline std::string evtok(const E& e) {
    int id = evinfo<E>::eid(e), s = evinfo<E>::serial(e);
    std::string r = std::to_string(id) + "#" + std::to_string(s);
    if (s >= 0 && evinfo<E>::pay(e) != paycheck(s)) r += "!BADPAY";
    if constexpr (has_dyn<E>::value) {
        // the object's dynamic type must be the type that was submitted under this serial (no slicing on the way)
        // (an exit point legitimately converts the event into another type: only a base of the submitted type counts)
        if (s >= 0) { int d = evinfo<E>::dyn(e); auto it = env().serial_type.find(s); if (d >= 0 && it != env().serial_type.end() && d != it->second && zoo::vf_isbase(d, it->second)) r += "!BADPAY-sliced-dyn" + std::to_string(d); }
    }
    return r;
}

template <class Fsm> inline std::string acttok(const Fsm& f) {
    std::string r;
    const auto* cs = f.current_state();
    for (int i = 0; i < Fsm::vf_nregions; ++i) { if (i) r += ','; r += std::to_string((int)cs[i]); }
    return r;
}

template <class F> struct RootOf;   // specialised by generated code once the root type is complete

struct Injected : std::runtime_error { Injected() : std::runtime_error("vf-injected") {} };

// generated per machine: performs nested submission alternative `alt` (0-based) on fsm
template <class Fsm> struct SubmitMenu;   // specialised / defined by generated code via ADL helper below

// The single entry point every generated stub calls.
//   K: 'G' guard, 'A' action, 'N' entry, 'X' exit, 'T' no_transition, 'C' exception_caught
// returns guard answer for 'G'.
template <class Ev, class Fsm>
inline bool callback(char K, int id, const Ev& e, Fsm& fsm, int completion_src_sid = -1) {
    Env& E = env();
    int owner = Fsm::mid;
    int eid = evinfo<Ev>::eid(e), serial = evinfo<Ev>::serial(e);
    std::string key = std::string(1, K) + "." + std::to_string(owner) + "." + std::to_string(id) + "." + std::to_string(serial);
    // a completion guard asked again within the same entry of its source state (back re-tries completion
    // rows after every handled event) is neither a new choice nor a deviation point
    bool fresh = true;
    if (K == 'G' && eid == 0 && completion_src_sid >= 0) {
        auto it = E.cmemo.find(id);
        if (it != E.cmemo.end() && it->second.cnt == E.entries[completion_src_sid]) fresh = false;
    }
    int k = fresh ? E.occurrence(key) : 0;
    std::string t = std::string(1, K) + ":" + std::to_string(owner) + ":" + std::to_string(id) + ":" + evtok(e) + ":" + acttok(fsm);
    bool answer = true;
    int inst = E.copy_mode ? E.inst_of(&fsm) : 0;
    int pid_ = id + 100000 * inst;
    if (K == 'N') { E.parity[pid_]++; E.entries[id]++; if (E.parity[pid_] != 1) { E.ledger_error = true; E.ledger_msg += " entry-twice:" + std::to_string(id); } }
    if (K == 'X') { E.parity[pid_]--; if (E.parity[pid_] != 0) { E.ledger_error = true; E.ledger_msg += " exit-unentered:" + std::to_string(id); } }
    if (K == 'G') {
        int c;
        if (eid == 0 && completion_src_sid >= 0) {
            // completion guard: answer fixed from the entry of its source state until it is next entered
            int cnt = E.entries[completion_src_sid];
            auto it = E.cmemo.find(id);
            if (it == E.cmemo.end() || it->second.cnt != cnt) {
                c = E.choose("g" + std::to_string(id) + ".c" + std::to_string(cnt), 2, 'g');
                E.cmemo[id] = Env::CM{completion_src_sid, cnt, c};
            } else c = it->second.ans;
        } else {
            c = E.choose("g" + std::to_string(id) + "." + std::to_string(serial) + "." + std::to_string(k), 2, 'g');
        }
        answer = (c == 0);
        t += answer ? ":1" : ":0";
    }
    if (E.observe_flags) t += ":F" + vf_flags(fsm);
    if (E.copy_mode) t += std::string(":I") + "ab?"[inst];
    E.tok(t);
    // deviation point: throw / nested submission
    bool pos_kind = (K == 'G' || K == 'A' || K == 'N' || K == 'X' || K == 'C' || (K == 'T' && E.submit_in_nt));
    if (pos_kind && fresh) {
        bool can_throw = E.faults && (K == 'G' || K == 'A' || K == 'N' || K == 'X');
        int n = 1 + (can_throw ? 1 : 0) + E.n_menu;
        if (n > 1) {
            int c = E.choose("p" + key + "." + std::to_string(k), n, 'p');
            if (c > 0) {
                if (can_throw && c == 1) { E.tok("!throw"); throw Injected(); }
                int alt = c - 1 - (can_throw ? 1 : 0);
                E.tok("!submit" + std::to_string(alt));
                vf_submit(fsm, alt);
                E.tok("!submitted");
            }
        }
    }
    return answer;
}

} // namespace vf
