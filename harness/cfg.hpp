// Back-end configuration selection and the generic stubs used by every generated machine.
//   VF_CFG: 1=b (back) 2=bc (back favor_compile_time) 3=bq (back circular queues) 4=b11 (back11)
//           5=m (backmp11 flat_fold) 6=mf (backmp11 function_pointer_array) 7=mc (backmp11 favor_compile_time)
#pragma once
#ifndef VF_CFG
#error "define VF_CFG"
#endif
#if VF_CFG <= 3
#define VF_FAMILY 1
#elif VF_CFG == 4
#define VF_FAMILY 2
#else
#define VF_FAMILY 3
#endif

// BOOST_ASSERT failures inside the library become exceptions the driver records (instead of abort())
#define BOOST_ENABLE_ASSERT_HANDLER
#include <string>
#include <vector>
#include <any>
#include <stdexcept>
namespace vf { struct AssertFailed { std::string what; explicit AssertFailed(const std::string& w) : what(w) {} }; }   // deliberately not a std::exception: the library must not swallow it
namespace boost {
inline void assertion_failed(char const* expr, char const* function, char const* file, long line) {
    (void)function; throw vf::AssertFailed(std::string("BOOST_ASSERT(") + expr + ") failed at " + file + ":" + std::to_string(line));
}
inline void assertion_failed_msg(char const* expr, char const* msg, char const* function, char const* file, long line) {
    (void)function; throw vf::AssertFailed(std::string("BOOST_ASSERT_MSG(") + expr + ", " + msg + ") failed at " + file + ":" + std::to_string(line));
}
}
#include <boost/any.hpp>
#include <boost/mpl/vector.hpp>
#include <boost/fusion/include/mpl.hpp>
#include <boost/msm/front/state_machine_def.hpp>
#include <boost/msm/front/functor_row.hpp>
#include <boost/msm/front/row2.hpp>
#include <boost/msm/front/completion_event.hpp>
#if VF_FAMILY == 1
#include <boost/msm/back/state_machine.hpp>
#include <boost/msm/back/favor_compile_time.hpp>
#include <boost/msm/back/queue_container_circular.hpp>
#elif VF_FAMILY == 2
#include <boost/msm/back11/state_machine.hpp>
#else
#include <boost/msm/backmp11/state_machine.hpp>
#include <boost/msm/backmp11/favor_compile_time.hpp>
#endif

#ifdef VF_SERIALIZE
#include <sstream>
#include <boost/archive/text_oarchive.hpp>
#include <boost/archive/text_iarchive.hpp>
#include <boost/archive/binary_oarchive.hpp>
#include <boost/archive/binary_iarchive.hpp>
#endif
#include "env.hpp"

namespace vf {

static void* g_root = nullptr;

struct Visitor { std::vector<int> ids; };

// polymorphic, visitable base of all states and machines (back / back11 only use it)
struct VBase {
#if VF_FAMILY == 1
    typedef boost::msm::back::args<void, Visitor&> accept_sig;
#elif VF_FAMILY == 2
    typedef boost::msm::back::args<void, Visitor&> accept_sig;
#endif
    virtual ~VBase() {}
    virtual int vsid() const { return -7; }
    void accept(Visitor& v) const { v.ids.push_back(-7); }
};

// every state carries a data word (bumped on entry); states with an odd id and all front-ends opt in to
// serialization when the TU is built with -DVF_SERIALIZE
template <int SID, bool OptIn = (SID % 2 == 1)> struct ZData { int vf_data = 0; };
#ifdef VF_SERIALIZE
template <int SID> struct ZData<SID, true> {
    int vf_data = 0;
    typedef int do_serialize;
    template <class Ar> void serialize(Ar& ar, const unsigned int) { ar & vf_data; }
};
#endif

template <int SID, class Base> struct ZS : Base, ZData<SID> {
    virtual int vsid() const { return SID; }
    void accept(Visitor& v) const { v.ids.push_back(SID); }
    template <class E, class F> void on_entry(E const& e, F& f) { this->vf_data += SID + 1; vf::callback('N', SID, e, f); }
    template <class E, class F> void on_exit(E const& e, F& f) { vf::callback('X', SID, e, f); }
};

template <int GID, int CSRC> struct Grd {
    template <class E, class F, class S, class T> bool operator()(E const& e, F& f, S&, T&) const {
        return vf::callback('G', GID, e, f, CSRC);
    }
};
template <int AID> struct Act {
    template <class E, class F, class S, class T> void operator()(E const& e, F& f, S&, T&) const {
        vf::callback('A', AID, e, f);
    }
};

// backmp11 conditional deferral: answer is a choice
template <class E, class F> inline bool deferq(int sid, E const& e, F&) {
    Env& En = env();
    int serial = evinfo<E>::serial(e);
    std::string key = "D." + std::to_string(sid) + "." + std::to_string(serial);
    int k = En.occurrence(key);
    int c = En.choose("d" + std::to_string(sid) + "." + std::to_string(serial) + "." + std::to_string(k), 2, 'd');
    En.tok("D:" + std::to_string(sid) + ":" + evtok(e) + ":" + (c == 0 ? "1" : "0"));
    return c == 0;
}

#if VF_FAMILY == 3
struct fpa_policy : boost::msm::backmp11::favor_runtime_speed {
    using dispatch_strategy = boost::msm::backmp11::dispatch_strategy::function_pointer_array;
};
struct cfg : boost::msm::backmp11::state_machine_config {
#if VF_CFG == 6
    using compile_policy = fpa_policy;
#elif VF_CFG == 7
    using compile_policy = boost::msm::backmp11::favor_compile_time;
#endif
};
// thin derived class so that the machines offer current_state() like the other back-ends
template <class Front> struct Mp11 : boost::msm::backmp11::state_machine<Front, cfg, Mp11<Front>> {
    using Base = boost::msm::backmp11::state_machine<Front, cfg, Mp11<Front>>;
    using Base::Base;
    const uint16_t* current_state() const { return this->get_active_state_ids().data(); }
};
#endif

} // namespace vf

#if VF_CFG == 1
#define VF_BACK(F, H) boost::msm::back::state_machine<F, H>
#elif VF_CFG == 2
#define VF_BACK(F, H) boost::msm::back::state_machine<F, boost::msm::back::favor_compile_time, H>
#elif VF_CFG == 3
#define VF_BACK(F, H) boost::msm::back::state_machine<F, boost::msm::back::queue_container_circular, H>
#elif VF_CFG == 4
#define VF_BACK(F, H) boost::msm::back11::state_machine<F, void, H>
#else
#define VF_BACK(F, H) vf::Mp11<F>
#endif

#if VF_FAMILY == 3
#define VF_HIST(...) void
#define VF_GET(m, T) (m).template get_state<T>()
#define VF_KLEENE std::any
#define VF_ANY_CAST std::any_cast
#define VF_FLAG_AND(m, F) (m).template is_flag_active<F, boost::msm::backmp11::flag_and>()
#define VF_EXEC_QUEUED(r) (r).process_event_pool()
#define VF_EXEC_SINGLE(r) (r).process_event_pool(1)
#else
#define VF_HIST(...) __VA_ARGS__
#define VF_GET(m, T) (m).template get_state<T&>()
#define VF_KLEENE boost::any
#define VF_ANY_CAST boost::any_cast
#define VF_FLAG_AND(m, F) (m).template is_flag_active<F, typename std::remove_reference<decltype(m)>::type::Flag_AND>()
#define VF_EXEC_QUEUED(r) (r).execute_queued_events()
#define VF_EXEC_SINGLE(r) (r).execute_single_queued_event()
#endif

namespace vf {
template <class E> inline const E* anyptr(const boost::any& a) { return boost::any_cast<E>(&a); }
template <class E> inline const E* anyptr(const std::any& a) { return std::any_cast<E>(&a); }
// a user-declared Kleene event type (C18): holds a copy of whatever event it is constructed from
struct UAny {
    std::any a;
    UAny() {}
    template <class E, class = typename std::enable_if<!std::is_same<typename std::decay<E>::type, UAny>::value>::type>
    UAny(E const& e) : a(e) {}
    const std::type_info& type() const { return a.type(); }
};
template <class E> inline const E* anyptr(const UAny& u) { return std::any_cast<E>(&u.a); }
}
namespace boost { namespace msm { template <> struct is_kleene_event<vf::UAny> : std::true_type {}; } }
#ifdef VF_UKLEENE
#undef VF_KLEENE
#define VF_KLEENE vf::UAny
#endif
namespace zoo {
template <class Any> inline vf::AnyInfo vf_anyinfo_impl(Any const& a);
}
namespace vf {
template <> struct evinfo<boost::any, void> {
    static int eid(const boost::any& a) { return zoo::vf_anyinfo_impl(a).eid + 1000; }
    static int serial(const boost::any& a) { return zoo::vf_anyinfo_impl(a).serial; }
    static int pay(const boost::any& a) { return zoo::vf_anyinfo_impl(a).pay; }
};
template <> struct evinfo<std::any, void> {
    static int eid(const std::any& a) { return zoo::vf_anyinfo_impl(a).eid + 1000; }
    static int serial(const std::any& a) { return zoo::vf_anyinfo_impl(a).serial; }
    static int pay(const std::any& a) { return zoo::vf_anyinfo_impl(a).pay; }
};
template <> struct evinfo<UAny, void> {
    static int eid(const UAny& a) { return zoo::vf_anyinfo_impl(a).eid + 1000; }
    static int serial(const UAny& a) { return zoo::vf_anyinfo_impl(a).serial; }
    static int pay(const UAny& a) { return zoo::vf_anyinfo_impl(a).pay; }
};
template <> struct evinfo<boost::msm::front::none, void> {
    static int eid(const boost::msm::front::none&) { return 0; }
    static int serial(const boost::msm::front::none&) { return -1; }
    static int pay(const boost::msm::front::none&) { return 0; }
};
}

#include "adapters.hpp"
