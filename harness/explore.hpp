// Explicit-state explorer over the real machine: BFS over operations, DFS over environment answers,
// de-duplication on a canonical state string.  Included at the end of every generated TU.
#pragma once
#include <deque>
#include <fstream>
#include <iostream>
#include <memory>
#include <unordered_map>
#include <chrono>

namespace vfx {
using namespace vf;

struct Step { std::string op; int ev; std::vector<int> tape; std::map<std::string,int> lm; bool labels = false; };
typedef std::vector<Step> History;

struct Options {
    std::vector<std::pair<std::string,int>> alphabet;  // (op, ev)
    int depth = 50;
    bool faults = false;
    int fault_budget = 0;
    int submit_budget = 0;
    int fault_ops = -1;      // max number of operations of one history that contain an injected fault (-1: unlimited)
    int guard_budget = -1;   // max number of guards answering false per operation (-1: unlimited)
    int qbound = 2;
    long max_exec = 5000000;
    long max_states = 2000000;
    bool introspect = false;
    bool observe_flags = false;
    bool submit_in_nt = false;
    bool stop_with_pending = false;
    int warm_n = 0; int warm_ev = 0;     // after start: warm_n x pe(warm_ev) as an uncounted prefix
    double deadline_s = 1e9;
    std::string out;
};

struct Exec {
    std::string trace; int ret; std::vector<Choice> choices; std::string canon; std::string intro;
    bool escaped = false; std::string escaped_what; bool ledger_error = false; std::string ledger_msg;
    int pending = 0; bool started = false; std::string rawseq; int rootq = 0;
};

static bool g_started = false;

inline std::string canon_state(zoo::RootT& r) {
    Env& E = env();
    std::string s = zoo::vf_snapshot(r);
    s += "L:";
    for (auto& kv : E.parity) if (kv.second != 0) s += std::to_string(kv.first) + "=" + std::to_string(kv.second) + ",";
    s += ";P:";
    std::set<int> marked; zoo::vf_marked(r, marked);
    for (int ser : E.submitted) { auto it = E.live.find(ser); if (it != E.live.end() && it->second > 0 && !marked.count(ser)) s += std::to_string(E.serial_type[ser]) + ","; }
    s += ";C:";
    for (auto& kv : E.cmemo) {
        // relevant only while the entry of the source state it was fixed for is still the current one
        auto& cm = kv.second;
        if (E.entries[cm.src] == cm.cnt && E.parity[cm.src] == 1) s += std::to_string(kv.first) + "=" + std::to_string(cm.ans) + ",";
    }
    s += ";S:" + std::to_string((int)g_started);
    s += ";QQ:" + zoo::vf_queues(r);     // the library's own queues: content and order as they really are
    return s;
}

inline int pending_count(zoo::RootT& r) {
    Env& E = env(); int n = 0;
    std::set<int> marked; zoo::vf_marked(r, marked);
    for (int ser : E.submitted) { auto it = E.live.find(ser); if (it != E.live.end() && it->second > 0 && !marked.count(ser)) n++; }
    return n;
}

// Run a whole history on a fresh machine; details of the last step are returned.
inline Exec run_history(const History& h, const Options& o, bool want_intro, std::vector<Exec>* all = nullptr) {
    Env& E = env();
    E.reset_all();
    E.faults = o.faults; E.n_menu = (o.submit_budget > 0) ? zoo::vf_nmenu : 0; E.observe_flags = o.observe_flags;
    E.submit_in_nt = o.submit_in_nt;
    g_started = false;
    Exec x;
    {
        std::unique_ptr<zoo::RootT> root(new zoo::RootT());
        g_root = root.get();
        zoo::vf_prepare(*root);
        for (size_t i = 0; i < h.size(); ++i) {
            const Step& st = h[i];
            E.begin_op(st.tape);
            E.use_labels = st.labels; E.labelmap = st.lm;
            E.faults = o.faults && st.op != "start" && st.op != "stop";   // C12 is about process_event
            int ret = -1; bool esc = false; std::string what;
            try {
                ret = zoo::vf_apply(*root, st.op, st.ev);
            } catch (Nondeterminism&) { throw; }
            catch (vf::AssertFailed& a) { esc = true; what = a.what; }
            catch (std::exception& ex) { esc = true; what = ex.what(); }
            catch (...) { esc = true; what = "non-std"; }
            if (st.op == "start") {
                g_started = true;
                for (int w = 0; w < o.warm_n; ++w) {
                    std::vector<int> none; std::string keep = E.trace; std::vector<Choice> keepc = E.choices;
                    E.begin_op(none);
                    zoo::vf_apply(*root, "pe", o.warm_ev);
                    E.trace = keep; E.choices = keepc;
                }
            }
            if (st.op == "stop") g_started = false;
            if (!st.labels && E.choices.size() < st.tape.size()) throw Nondeterminism{"tape longer than the choices asked"};
            if (all || i + 1 == h.size()) {
                x = Exec();
                x.trace = E.trace; x.ret = ret; x.choices = E.choices; x.escaped = esc; x.escaped_what = what;
                x.canon = canon_state(*root);
                x.ledger_error = E.ledger_error; x.ledger_msg = E.ledger_msg;
                x.pending = pending_count(*root); x.started = g_started; x.rawseq = zoo::vf_rawseq(*root); x.rootq = zoo::vf_rootq(*root);
                if (want_intro || o.introspect) {
                    x.intro = zoo::vf_introspect(*root); x.intro += " AND:" + zoo::vf_flags_and(*root);
                    // what the introspection calls answer is part of the state identity: a path-dependent
                    // answer splits the state instead of hiding behind the first visit
                    if (o.introspect) x.canon += ";I:" + std::to_string(std::hash<std::string>()(x.intro) % 1000003);
                }
                if (all) all->push_back(x);
            }
        }
        if (h.empty()) { x.canon = canon_state(*root); x.started = false; if (want_intro || o.introspect) { x.intro = zoo::vf_introspect(*root); x.intro += " AND:" + zoo::vf_flags_and(*root); } }
        g_root = nullptr;
    }
    // all copies of every event must be gone once the machine is destroyed
    for (auto& kv : E.live) if (kv.second != 0) { x.ledger_error = true; x.ledger_msg += " live-after-destroy:" + std::to_string(kv.first) + "=" + std::to_string(kv.second); }
    return x;
}

inline std::string tape_str(const std::vector<Choice>& cs) {
    std::string r;
    for (auto& c : cs) if (c.chosen != 0) { if (!r.empty()) r += ','; r += c.label + "=" + std::to_string(c.chosen); }
    return r.empty() ? "-" : r;
}
inline std::string tape_raw(const std::vector<Choice>& cs) {
    std::string r;
    for (auto& c : cs) { if (!r.empty()) r += ','; r += std::to_string(c.chosen); }
    return r.empty() ? "-" : r;
}

inline bool op_enabled(const std::pair<std::string,int>& op, const Exec& st, const Options& o) {
    const std::string& n = op.first;
    if (n == "start") return !st.started;
    if (!st.started) return false;
    if (n == "pe" || n == "eq") return st.pending < o.qbound;
    if (n == "xs") return st.rootq > 0;   // execute_single_queued_event on an empty queue is a precondition violation
    if (n == "stop") return st.pending == 0 || o.stop_with_pending;   // events pending across stop()/start(): unspecified corner
    return true;
}

struct Node { History hist; Exec st; int depth; int nfaultops; };

inline int explore(const Options& o) {
    auto t0 = std::chrono::steady_clock::now();
    std::ostream* out = &std::cout; std::ofstream f;
    if (!o.out.empty()) { f.open(o.out); out = &f; }
    std::unordered_map<std::string,int> seen;
    std::deque<Node> frontier;
    Exec init = run_history(History(), o, o.introspect);
    seen[init.canon] = 0;
    *out << "S\t0\t" << init.canon << "\t" << init.intro << "\n";
    frontier.push_back(Node{History(), init, 0, 0});
    long nexec = 0, ntrans = 0, npruned = 0, nledger = 0; int maxdepth = 0; bool capped = false; std::string cap;
    int n_menu = (o.submit_budget > 0) ? zoo::vf_nmenu : 0;
    while (!frontier.empty()) {
        Node nd = frontier.front(); frontier.pop_front();
        if (nd.depth > maxdepth) maxdepth = nd.depth;
        if (nd.depth >= o.depth) { capped = true; cap = "depth"; continue; }
        if (nd.st.pending > o.qbound) { npruned++; continue; }   // alphabet bound: at most qbound pending events
        int src = seen[nd.st.canon];
        for (auto& op : o.alphabet) {
            if (!op_enabled(op, nd.st, o)) continue;
            std::vector<std::vector<int>> stack; stack.push_back({});
            while (!stack.empty()) {
                std::vector<int> prefix = stack.back(); stack.pop_back();
                History h = nd.hist; h.push_back(Step{op.first, op.second, prefix});
                Exec x = run_history(h, o, false);
                nexec++;
                // successors in the DFS over environment answers
                int used_f = 0, used_s = 0, used_g = 0;
                for (size_t i = 0; i < x.choices.size(); ++i) {
                    const Choice& c = x.choices[i];
                    if (i >= prefix.size()) {
                        for (int alt = 1; alt < c.n; ++alt) {
                            if ((c.kind == 'g' || c.kind == 'd') && o.guard_budget >= 0 && used_g + 1 > o.guard_budget) continue;
                            if (c.kind == 'p') {
                                bool can_throw = (c.n - 1 - n_menu) == 1;
                                bool is_fault = can_throw && alt == 1;
                                if (is_fault && used_f + 1 > o.fault_budget) continue;
                                if (is_fault && o.fault_ops >= 0 && nd.nfaultops >= o.fault_ops) continue;
                                if (!is_fault && used_s + 1 > o.submit_budget) continue;
                            }
                            std::vector<int> np;
                            for (size_t j = 0; j < i; ++j) np.push_back(x.choices[j].chosen);
                            np.push_back(alt);
                            stack.push_back(np);
                        }
                    }
                    if ((c.kind == 'g' || c.kind == 'd') && c.chosen != 0) used_g++;
                    if (c.kind == 'p' && c.chosen != 0) {
                        bool can_throw = (c.n - 1 - n_menu) == 1;
                        if (can_throw && c.chosen == 1) used_f++; else used_s++;
                    }
                }
                int child_fo = nd.nfaultops + (used_f > 0 ? 1 : 0);
                if (o.fault_ops >= 0) x.canon += ";FO:" + std::to_string(child_fo);
                auto it = seen.find(x.canon);
                int dst;
                bool isnew = false;
                if (it == seen.end()) {
                    dst = (int)seen.size(); seen[x.canon] = dst; isnew = true;
                } else dst = it->second;
                ntrans++;
                if (isnew) {
                    std::string intro;
                    if (o.introspect) { intro = x.intro; }
                    *out << "S\t" << dst << "\t" << x.canon << "\t" << intro << "\n";
                }
                std::string rawtape = tape_raw(x.choices);
                *out << "X\t" << src << "\t" << op.first << ":" << op.second << "\t" << tape_str(x.choices) << "\t" << rawtape << "\t"
                     << (x.trace.empty() ? "-" : x.trace) << "\t" << x.ret << "\t" << dst << "\t"
                     << (x.escaped ? "ESC:" + x.escaped_what : "-") << "\t" << (x.ledger_error ? x.ledger_msg : "-") << "\t" << x.rawseq << "\n";
                bool stop_here = x.ledger_error && !o.faults;   // with injected faults a broken ledger is expected (C03 excludes exceptions)
                if (isnew && stop_here) { nledger++; }   // a broken entry/exit ledger is reported; nothing is explored beyond it
                if (isnew && !stop_here) {
                    // normalise the stored history: full tape of the chosen alternatives
                    History hh = nd.hist; std::vector<int> full; for (auto& c : x.choices) full.push_back(c.chosen);
                    hh.push_back(Step{op.first, op.second, full});
                    frontier.push_back(Node{hh, x, nd.depth + 1, child_fo});
                    if ((long)seen.size() >= o.max_states) { capped = true; cap = "max_states"; }
                }
                if (nexec >= o.max_exec) { capped = true; cap = "max_exec"; }
                double el = std::chrono::duration<double>(std::chrono::steady_clock::now() - t0).count();
                if (el > o.deadline_s) { capped = true; cap = "deadline"; }
                if (capped && cap != "depth") break;
            }
            if (capped && cap != "depth") break;
        }
        if (capped && cap != "depth") break;
    }
    double el = std::chrono::duration<double>(std::chrono::steady_clock::now() - t0).count();
    bool closed = frontier.empty() && !capped;
    *out << "E\tstates=" << seen.size() << "\ttransitions=" << ntrans << "\texecutions=" << nexec << "\tmaxdepth=" << maxdepth
         << "\tpruned_pending=" << npruned << "\tpruned_ledger=" << nledger << "\tclosed=" << (closed ? 1 : 0) << "\tcap=" << (capped ? cap : "-") << "\twall=" << el << "\n";
    out->flush();
    return 0;
}

inline std::vector<std::string> split(const std::string& s, char d) {
    std::vector<std::string> r; std::string cur;
    for (char c : s) { if (c == d) { r.push_back(cur); cur.clear(); } else cur += c; }
    r.push_back(cur); return r;
}

// replay file: one step per line "op ev tape" with tape = comma separated alternatives or "-"
inline int replay(const std::string& path, const Options& o) {
    std::ifstream in(path);
    History h; std::string op; int ev; std::string tape;
    while (in >> op >> ev >> tape) {
        Step s{op, ev, {}};
        if (tape != "-") for (auto& t : split(tape, ',')) s.tape.push_back(atoi(t.c_str()));
        h.push_back(s);
    }
    std::vector<Exec> all;
    run_history(h, o, true, &all);
    for (size_t i = 0; i < all.size(); ++i) {
        Exec& x = all[i];
        std::cout << "R\t" << i << "\t" << h[i].op << ":" << h[i].ev << "\t" << tape_str(x.choices) << "\t" << tape_raw(x.choices) << "\t"
                  << (x.trace.empty() ? "-" : x.trace) << "\t" << x.ret << "\t" << x.canon << "\t"
                  << (x.escaped ? "ESC:" + x.escaped_what : "-") << "\t" << (x.ledger_error ? x.ledger_msg : "-") << "\t" << x.intro << "\t" << x.rawseq << "\n";
    }
    return 0;
}

// ---- copy / move differential (C15): two machine objects, operations addressed to either one -----------
inline std::string inst_canon(zoo::RootT& r, int inst) {
    Env& E = env();
    std::string s = zoo::vf_snapshot(r) + "L:";
    for (auto& kv : E.parity) if (kv.second != 0 && kv.first / 100000 == inst) s += std::to_string(kv.first % 100000) + "=" + std::to_string(kv.second) + ",";
    return s;
}
inline void set_range(int i, zoo::RootT* p) {
    Env& E = env();
    E.inst_lo[i] = reinterpret_cast<const char*>(p); E.inst_hi[i] = p ? reinterpret_cast<const char*>(p) + sizeof(zoo::RootT) : nullptr;
}
inline std::string run_copy_history(const History& h, const Options& o) {
    Env& E = env();
    E.reset_all(); E.copy_mode = true; E.faults = false; E.n_menu = 0; E.observe_flags = false;
    std::string reply;
    {
        std::unique_ptr<zoo::RootT> A(new zoo::RootT()), B;
        set_range(0, A.get()); set_range(1, nullptr);
        g_root = A.get();
        zoo::vf_prepare(*A);
        for (size_t i = 0; i < h.size(); ++i) {
            const Step& st = h[i];
            E.begin_op(st.tape); E.use_labels = true; E.labelmap = st.lm;
            int ret = -1; bool esc = false; std::string what;
            std::string op = st.op; bool onB = false;
            if (op.size() > 1 && op.back() == 'B') { onB = true; op.pop_back(); }
            try {
                if (op == "cc") {
                    B.reset(new zoo::RootT(static_cast<const zoo::RootT&>(*A))); set_range(1, B.get());
                    std::map<int,int> add; for (auto& kv : E.parity) if (kv.first / 100000 == 0) add[kv.first + 100000] = kv.second;
                    for (auto& kv : add) E.parity[kv.first] = kv.second;
                } else if (op == "ca") {
                    B.reset(new zoo::RootT()); set_range(1, B.get()); zoo::vf_prepare(*B);
                    *B = static_cast<const zoo::RootT&>(*A);
                    std::map<int,int> add; for (auto& kv : E.parity) if (kv.first / 100000 == 0) add[kv.first + 100000] = kv.second;
                    for (auto& kv : add) E.parity[kv.first] = kv.second;
#if VF_FAMILY == 3
                } else if (op == "mvc") {
                    B.reset(new zoo::RootT(std::move(*A))); set_range(1, B.get());
                    std::map<int,int> add; for (auto& kv : E.parity) if (kv.first / 100000 == 0) add[kv.first + 100000] = kv.second;
                    for (auto& kv : add) E.parity[kv.first] = kv.second;
                } else if (op == "mva") {
                    B.reset(new zoo::RootT()); set_range(1, B.get());
                    *B = std::move(*A);
                    std::map<int,int> add; for (auto& kv : E.parity) if (kv.first / 100000 == 0) add[kv.first + 100000] = kv.second;
                    for (auto& kv : add) E.parity[kv.first] = kv.second;
#endif
#if defined(VF_SERIALIZE) && VF_FAMILY != 3
                } else if (op == "svt" || op == "svb") {
                    std::stringstream ss;
                    const zoo::RootT& src = *A;
                    if (op == "svt") { boost::archive::text_oarchive oa(ss); oa << src; }
                    else { boost::archive::binary_oarchive oa(ss); oa << src; }
                    B.reset(new zoo::RootT()); set_range(1, B.get()); zoo::vf_prepare(*B);
                    if (op == "svt") { boost::archive::text_iarchive ia(ss); ia >> *B; }
                    else { boost::archive::binary_iarchive ia(ss); ia >> *B; }
                    std::map<int,int> add; for (auto& kv : E.parity) if (kv.first / 100000 == 0) add[kv.first + 100000] = kv.second;
                    for (auto& kv : add) E.parity[kv.first] = kv.second;
#endif
                } else if (op == "dA") {
                    A.reset(); set_range(0, nullptr);
                    for (auto it = E.parity.begin(); it != E.parity.end();) { if (it->first / 100000 == 0) it = E.parity.erase(it); else ++it; }
                } else if (op == "asA") {
                    *A = static_cast<const zoo::RootT&>(*B);
                    for (auto it = E.parity.begin(); it != E.parity.end();) { if (it->first / 100000 == 0) it = E.parity.erase(it); else ++it; }
                    std::map<int,int> add; for (auto& kv : E.parity) if (kv.first / 100000 == 1) add[kv.first - 100000] = kv.second;
                    for (auto& kv : add) E.parity[kv.first] = kv.second;
                } else {
                    zoo::RootT* tgt = onB ? B.get() : A.get();
                    if (!tgt) throw Nondeterminism{"operation on a machine that does not exist"};
                    g_root = tgt;
                    ret = zoo::vf_apply(*tgt, op, st.ev);
                }
            } catch (Nondeterminism&) { throw; }
            catch (vf::AssertFailed& a) { esc = true; what = a.what; }
            catch (std::exception& ex) { esc = true; what = ex.what(); }
            catch (...) { esc = true; what = "non-std"; }
            if (i + 1 == h.size()) {
                std::string ch;
                for (auto& c : E.choices) { ch += c.label + ":" + std::to_string(c.n) + ":" + std::to_string(c.chosen) + ":" + std::string(1, c.kind) + ";"; }
                reply = (E.trace.empty() ? "-" : E.trace) + "\t" + std::to_string(ret) + "\t" + (A ? inst_canon(*A, 0) : std::string("gone")) + "\t"
                      + (B ? inst_canon(*B, 1) : std::string("none")) + "\t" + (ch.empty() ? "-" : ch) + "\t" + (esc ? "ESC:" + what : "-") + "\t"
                      + (E.ledger_error ? E.ledger_msg : "-") + "\t" + std::to_string(A ? zoo::vf_rootq(*A) : 0) + "\t" + std::to_string(B ? zoo::vf_rootq(*B) : 0)
                      + "\t" + std::to_string(A ? pending_count(*A) : 0) + "\t" + (A ? zoo::vf_datasnap(*A) : std::string("-")) + "\t" + (B ? zoo::vf_datasnap(*B) : std::string("-"));
            }
        }
        if (h.empty()) reply = "-\t-1\t" + inst_canon(*A, 0) + "\tnone\t-\t-\t-\t0\t0\t0\t" + zoo::vf_datasnap(*A) + "\t-";
        g_root = nullptr;
    }
    bool leak = false; std::string lk;
    for (auto& kv : E.live) if (kv.second != 0) { leak = true; lk += std::to_string(kv.first) + "=" + std::to_string(kv.second) + ","; }
    reply += "\t" + (leak ? lk : std::string("-"));
    E.copy_mode = false;
    return reply;
}

inline History parse_history_line(const std::string& line) {
    History h;
    if (!line.empty() && line != "-") {
        for (auto& st : split(line, '|')) {
            auto f = split(st, ',');
            Step s; s.op = f[0]; s.ev = atoi(f[1].c_str()); s.labels = true;
            if (f.size() > 2 && !f[2].empty()) for (auto& kv : split(f[2], ';')) {
                if (kv.empty()) continue;
                auto p = kv.rfind('=');
                s.lm[kv.substr(0, p)] = atoi(kv.substr(p + 1).c_str());
            }
            h.push_back(s);
        }
    }
    return h;
}

inline int servecopy(const Options& o) {
    std::string line;
    while (std::getline(std::cin, line)) {
        if (line == "QUIT") break;
        try {
            std::cout << run_copy_history(parse_history_line(line), o) << std::endl;
        } catch (Nondeterminism& n) {
            std::cout << "NONDETERMINISM " << n.what << std::endl;
        }
    }
    return 0;
}

// lock-step service: one request per line on stdin
//   step|step|...   with step = op,ev,label=alt;label=alt;...
// one reply line: trace \t ret \t canon \t label:n:chosen;... \t esc \t ledger \t pending \t started \t rootq
inline int serve(const Options& o) {
    std::string line;
    while (std::getline(std::cin, line)) {
        if (line == "QUIT") break;
        History h;
        if (!line.empty() && line != "-") {
            for (auto& st : split(line, '|')) {
                auto f = split(st, ',');
                Step s; s.op = f[0]; s.ev = atoi(f[1].c_str()); s.labels = true;
                if (f.size() > 2 && !f[2].empty()) for (auto& kv : split(f[2], ';')) {
                    if (kv.empty()) continue;
                    auto p = kv.rfind('=');
                    s.lm[kv.substr(0, p)] = atoi(kv.substr(p + 1).c_str());
                }
                h.push_back(s);
            }
        }
        try {
            Exec x = run_history(h, o, o.introspect);
            std::string ch;
            for (auto& c : x.choices) { ch += c.label + ":" + std::to_string(c.n) + ":" + std::to_string(c.chosen) + ":" + std::string(1, c.kind) + ";"; }
            std::cout << (x.trace.empty() ? "-" : x.trace) << "\t" << x.ret << "\t" << x.canon << "\t" << (ch.empty() ? "-" : ch) << "\t"
                      << (x.escaped ? "ESC:" + x.escaped_what : "-") << "\t" << (x.ledger_error ? x.ledger_msg : "-") << "\t" << x.pending
                      << "\t" << (x.started ? 1 : 0) << "\t" << x.rootq << "\t" << x.intro << std::endl;
        } catch (Nondeterminism& n) {
            std::cout << "NONDETERMINISM " << n.what << std::endl;
        }
    }
    return 0;
}

} // namespace vfx

int main(int argc, char** argv) {
    vfx::Options o;
    std::string mode = argc > 1 ? argv[1] : "";
    std::string replay_path;
    for (int i = 2; i < argc; ++i) {
        std::string a = argv[i];
        auto next = [&]() { return std::string(argv[++i]); };
        if (a == "--ops") {
            for (auto& t : vfx::split(next(), ',')) {
                auto p = vfx::split(t, ':');
                o.alphabet.push_back({p[0], p.size() > 1 ? atoi(p[1].c_str()) : 0});
            }
        } else if (a == "--depth") o.depth = atoi(next().c_str());
        else if (a == "--faults") { o.fault_budget = atoi(next().c_str()); o.faults = o.fault_budget > 0; }
        else if (a == "--submits") o.submit_budget = atoi(next().c_str());
        else if (a == "--qbound") o.qbound = atoi(next().c_str());
        else if (a == "--guards") o.guard_budget = atoi(next().c_str());
        else if (a == "--fault-ops") o.fault_ops = atoi(next().c_str());
        else if (a == "--max-exec") o.max_exec = atol(next().c_str());
        else if (a == "--max-states") o.max_states = atol(next().c_str());
        else if (a == "--introspect") o.introspect = true;
        else if (a == "--observe-flags") o.observe_flags = true;
        else if (a == "--submit-in-nt") o.submit_in_nt = true;
        else if (a == "--stop-with-pending") o.stop_with_pending = true;
        else if (a == "--warm") { auto p = vfx::split(next(), ':'); o.warm_n = atoi(p[0].c_str()); o.warm_ev = atoi(p[1].c_str()); }
        else if (a == "--deadline") o.deadline_s = atof(next().c_str());
        else if (a == "--out") o.out = next();
        else if (a == "--file") replay_path = next();
        else { std::cerr << "unknown arg " << a << "\n"; return 2; }
    }
    try {
        if (mode == "explore") return vfx::explore(o);
        if (mode == "replay") return vfx::replay(replay_path, o);
        if (mode == "serve") return vfx::serve(o);
        if (mode == "servecopy") return vfx::servecopy(o);
        if (mode == "caps") { zoo::RootT* r = new zoo::RootT(); zoo::vf_prepare(*r); r->start(); (void)vfx::canon_state(*r); std::cout << "missing: " << vf::caps_missing() << "\n"; return 0; }
        if (mode == "info") { std::cout << zoo::vf_machine_name << " cfg=" << VF_CFG << " events=" << zoo::vf_nevents << " menu=" << zoo::vf_nmenu << "\n"; return 0; }
    } catch (vf::Nondeterminism& n) {
        std::cerr << "NONDETERMINISM " << n.what << "\n";
        return 2;
    }
    std::cerr << "usage: explore|replay|info ...\n";
    return 2;
}
